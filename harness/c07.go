package main

// C07: pending IQ requests (SendIQ / Router.route / cancellation) under forced
// schedules on the real Router and Client, against Model/Conc.v.

import (
	"context"
	"encoding/json"
	"encoding/xml"
	"fmt"
	"math/rand"
	"runtime"
	"sort"
	"strconv"
	"strings"
	"sync"
	"sync/atomic"
	"time"

	xmpp "gosrc.io/xmpp"
	"gosrc.io/xmpp/stanza"
)

type c07Op struct {
	Op    string `json:"op"`               // sendiq arrive burst recv cancel reenter csend
	ID    int    `json:"id,omitempty"`     // iq id (sendiq, arrive, burst)
	Req   int    `json:"req,omitempty"`    // request index (recv, cancel)
	N     int    `json:"n,omitempty"`      // burst: number of concurrent copies
	Fail  bool   `json:"fail,omitempty"`   // sendiq: the transport write fails
	Early bool   `json:"early,omitempty"`  // sendiq: the response is routed from inside the transport Write (before SendIQ returns)
	XID   int    `json:"xid,omitempty"`    // arrive: the response comes off the wire (decoded by stanza.NextPacket) carrying, besides its id, a look-alike attribute xml:id='XID'
	Get   bool   `json:"get,omitempty"`    // arrive: the IQ is a REQUEST (type get) that happens to carry this id, not a response
	Typ   string `json:"typ,omitempty"`    // arrive: the type attribute as it comes off the wire: result error get set, "none" (attribute missing), or anything else ("Result", "ERROR", "foo"); only result and error are responses
	Steer bool   `json:"steer,omitempty"`  // csend: request Req (a late, cancelled one holding the id's stale entry) has a context whose Err() parks the first caller inside SendIQ's "is the id pending?" check until the other callers had their chance
	Round int    `json:"rounds,omitempty"` // csend: unsteered rounds of N concurrent SendIQ calls under one scratch id run first
	Late  bool   `json:"late,omitempty"`   // sendiq: context whose Err() turns non-nil on cancel but whose Done() never fires: the canceller goroutine never removes the entry (the window between cancellation and clean-up, held open)
}
type c07In struct {
	Component bool    `json:"component,omitempty"`
	Ops       []c07Op `json:"ops"`
}

type c07 struct{}

func init() { register(c07{}) }

func (c07) ID() string    { return "C07" }
func (c07) RunFn() string { return "run_C07" }
func (c07) Workers() int  { return 8 }
func (c07) Journal() bool { return true }
func (c07) Rule() string {
	return "forced schedules on the real Router/Client/Component: SendIQ (ids distinct or clashing - a clashing id must be refused with an error and nothing written while the earlier request is awaiting its response -, write ok or failing, response routed from inside the transport write i.e. before SendIQ returns), matching / duplicate / foreign responses routed synchronously, one in four arrivals being a get REQUEST carrying such an id and one in five carrying a type drawn from {error, set, get, missing, Result, ERROR, foo} as decoded from the wire (only result and error are responses; everything else must reach the ordinary routes and leave the pending request alone), N concurrent SendIQ calls under one id released together (40 unsteered rounds on scratch ids, then the observed round; steered variant: the stale entry's context parks the first caller inside the pending-check while the others run) - at most one may be accepted while the id is pending, (one in four decoded from the wire by stanza.NextPacket with an xml:id look-alike naming another request), bursts of 2-6 concurrent copies of one response released together through the exported IQResultRouteLock, receiver reading or abandoning its channel, an ordinary route handler that itself calls SendIQ (re-entrancy into the pending table while a response is being routed), context cancellation before the response, with the clean-up goroutine run or held back (context whose Done() never fires); every routing call runs under a watchdog (a call that does not return is a blocked router); distinct = op sequence shape; non-trivial = at least one request and one response"
}
func (c07) Decode(raw json.RawMessage) (interface{}, error) {
	var in c07In
	err := json.Unmarshal(raw, &in)
	return in, err
}

func (c07) Gen(r *rand.Rand, tier string) []interface{} {
	n := 700
	if tier == "thorough" {
		n = 15000
	}
	var out []interface{}
	out = append(out,
		// duplicates racing between lookup and delete (D7)
		c07In{Ops: []c07Op{{Op: "sendiq", ID: 1}, {Op: "burst", ID: 1, N: 4}, {Op: "recv", Req: 0}}},
		// response before SendIQ returns
		c07In{Ops: []c07Op{{Op: "sendiq", ID: 1, Early: true}, {Op: "recv", Req: 0}}},
		// abandoned receiver, component (synchronous routing)
		c07In{Component: true, Ops: []c07Op{{Op: "sendiq", ID: 1}, {Op: "arrive", ID: 1}, {Op: "arrive", ID: 2}}},
		// cancellation then response
		c07In{Ops: []c07Op{{Op: "sendiq", ID: 1}, {Op: "cancel", Req: 0}, {Op: "arrive", ID: 1}}},
		// an ordinary route handler that itself sends a request (re-entrancy into the pending table)
		c07In{Component: true, Ops: []c07Op{{Op: "reenter", ID: 9}, {Op: "arrive", ID: 20}, {Op: "recv", Req: 0}}},
		c07In{Ops: []c07Op{{Op: "sendiq", ID: 1}, {Op: "arrive", ID: 1}, {Op: "reenter", ID: 1}, {Op: "arrive", ID: 21}}},
		// a response whose xml:id look-alike names another pending request must still go to its own id
		c07In{Ops: []c07Op{{Op: "sendiq", ID: 1}, {Op: "sendiq", ID: 2}, {Op: "arrive", ID: 1, XID: 2}, {Op: "arrive", ID: 2, XID: 1}, {Op: "recv", Req: 0}, {Op: "recv", Req: 1}}},
		// a get carrying the id of a pending request is a request, not its response (hunt-C07/f1)
		c07In{Ops: []c07Op{{Op: "sendiq", ID: 1}, {Op: "arrive", ID: 1, Get: true}, {Op: "arrive", ID: 1}, {Op: "recv", Req: 0}}},
		c07In{Component: true, Ops: []c07Op{{Op: "sendiq", ID: 2}, {Op: "arrive", ID: 2, Get: true, XID: 2}, {Op: "recv", Req: 0}, {Op: "arrive", ID: 2}}},
		// an IQ of missing / non-standard type carrying a pending id is not the response either (seeded C07-mut5)
		c07In{Ops: []c07Op{{Op: "sendiq", ID: 1}, {Op: "arrive", ID: 1, Typ: "none"}, {Op: "arrive", ID: 1, Typ: "Result"}, {Op: "arrive", ID: 1, Typ: "error"}, {Op: "recv", Req: 0}}},
		c07In{Component: true, Ops: []c07Op{{Op: "sendiq", ID: 2}, {Op: "arrive", ID: 2, Typ: "ERROR"}, {Op: "arrive", ID: 2, Typ: "foo", XID: 2}, {Op: "arrive", ID: 2, Typ: "set"}, {Op: "arrive", ID: 2}, {Op: "recv", Req: 0}}},
		// concurrent SendIQ calls under one id: one accepted, the others refused (seeded C07-mut6)
		c07In{Ops: []c07Op{{Op: "csend", ID: 1, N: 4, Round: 40}, {Op: "arrive", ID: 1}, {Op: "arrive", ID: 1}, {Op: "recv", Req: 0}}},
		c07In{Ops: []c07Op{{Op: "sendiq", ID: 2, Late: true}, {Op: "cancel", Req: 0}, {Op: "csend", ID: 2, N: 2, Steer: true, Req: 0}, {Op: "arrive", ID: 2}, {Op: "arrive", ID: 2}, {Op: "recv", Req: 1}, {Op: "recv", Req: 2}}},
		c07In{Component: true, Ops: []c07Op{{Op: "sendiq", ID: 3, Late: true}, {Op: "csend", ID: 3, N: 3, Steer: true, Req: 0}, {Op: "arrive", ID: 3}, {Op: "recv", Req: 0}}},
		// clashing ids: the second request is refused, the first keeps its entry (hunt-C07/f3)
		c07In{Ops: []c07Op{{Op: "sendiq", ID: 1}, {Op: "sendiq", ID: 1}, {Op: "arrive", ID: 1}, {Op: "recv", Req: 0}, {Op: "sendiq", ID: 1}, {Op: "arrive", ID: 1}}},
		c07In{Ops: []c07Op{{Op: "sendiq", ID: 1}, {Op: "sendiq", ID: 1}, {Op: "arrive", ID: 1}, {Op: "arrive", ID: 1}, {Op: "recv", Req: 0}, {Op: "recv", Req: 1}}},
		c07In{Ops: []c07Op{{Op: "sendiq", ID: 1, Fail: true}, {Op: "arrive", ID: 1}}},
		// response in the window between cancellation and clean-up
		c07In{Ops: []c07Op{{Op: "sendiq", ID: 1, Late: true}, {Op: "cancel", Req: 0}, {Op: "arrive", ID: 1}, {Op: "arrive", ID: 1}}},
	)
	for i := 0; i < n; i++ {
		in := c07In{Component: r.Intn(3) == 0}
		l := 1 + r.Intn(14)
		nreq := 0
		for j := 0; j < l; j++ {
			switch c := r.Intn(22); {
			case c < 6 || nreq == 0:
				in.Ops = append(in.Ops, c07Op{Op: "sendiq", ID: 1 + r.Intn(3), Fail: r.Intn(8) == 0, Early: r.Intn(6) == 0, Late: r.Intn(4) == 0})
				nreq++
			case c < 12:
				id := 1 + r.Intn(4)
				if nreq > 0 && r.Intn(5) == 0 {
					id = 20 + r.Intn(nreq) // the answer to a request sent by a re-entrant handler (if that slot is one)
				}
				op := c07Op{Op: "arrive", ID: id, Get: r.Intn(4) == 0}
				if !op.Get && r.Intn(5) == 0 {
					op.Typ = []string{"error", "set", "get", "none", "Result", "ERROR", "foo", "result"}[r.Intn(8)]
				}
				if r.Intn(4) == 0 {
					op.XID = 1 + r.Intn(4) // decoded from the wire, with an xml:id look-alike naming another (maybe pending) request
				}
				in.Ops = append(in.Ops, op)
			case c < 13:
				in.Ops = append(in.Ops, c07Op{Op: "burst", ID: 1 + r.Intn(3), N: 2 + r.Intn(5)})
			case c < 14:
				// a late/duplicate/foreign response whose ordinary handler sends a new request
				in.Ops = append(in.Ops, c07Op{Op: "reenter", ID: 5 + r.Intn(3)})
				nreq++
			case c < 17:
				in.Ops = append(in.Ops, c07Op{Op: "recv", Req: r.Intn(nreq)})
			case c == 20:
				k := 2 + r.Intn(3)
				in.Ops = append(in.Ops, c07Op{Op: "csend", ID: 1 + r.Intn(3), N: k, Round: 40})
				nreq += k
			case c == 21:
				// a request whose context has ended keeps its stale entry (clean-up held back); concurrent callers reuse the id
				id, k := 1+r.Intn(3), 2+r.Intn(2)
				in.Ops = append(in.Ops, c07Op{Op: "sendiq", ID: id, Late: true})
				if r.Intn(4) != 0 {
					in.Ops = append(in.Ops, c07Op{Op: "cancel", Req: nreq})
				}
				in.Ops = append(in.Ops, c07Op{Op: "csend", ID: id, N: k, Steer: true, Req: nreq})
				nreq += 1 + k
			default:
				in.Ops = append(in.Ops, c07Op{Op: "cancel", Req: r.Intn(nreq)})
			}
		}
		out = append(out, in)
	}
	return out
}

// ---- model input: the same schedule as atomic model actions ----
func (c07) Input(inp interface{}) Sx {
	in := inp.(c07In)
	var acts []Sx
	nch, nrt := 0, 0
	var failed []bool
	var late []bool
	arrive := func(id int, kind ...int) {
		if len(kind) > 0 && kind[0] != 0 {
			acts = append(acts, L(Z(2), Zi(id), Zi(nrt), Zi(kind[0])))
		} else {
			acts = append(acts, L(Z(2), Zi(id), Zi(nrt)))
		}
		for s := 0; s < 3; s++ {
			acts = append(acts, L(Z(3), Zi(nrt)))
		}
		nrt++
	}
	for _, o := range in.Ops {
		switch o.Op {
		case "sendiq":
			acts = append(acts, L(Z(0), Zi(o.ID)))
			c := nch
			nch++
			failed = append(failed, o.Fail)
			late = append(late, o.Late)
			if o.Early && !o.Fail {
				arrive(o.ID) // routed while the request is being written: after registration
			}
			if o.Fail {
				acts = append(acts, L(Z(1), Zi(c)))
			}
		case "arrive":
			arrive(o.ID, c07Kind(o))
		case "csend":
			// the calls are atomic one after the other in some order; the slots are numbered in that order
			for k := 0; k < o.N; k++ {
				acts = append(acts, L(Z(0), Zi(o.ID)))
				nch++
				failed = append(failed, false)
				late = append(late, false)
			}
		case "reenter":
			// the response is routed; its ordinary handler (if it runs) registers request 20+chan index
			arrive(o.ID)
			acts = append(acts, L(Z(0), Zi(20+nch)))
			nch++
			failed = append(failed, false)
			late = append(late, false)
		case "burst":
			first := nrt
			for k := 0; k < o.N; k++ {
				acts = append(acts, L(Z(2), Zi(o.ID), Zi(nrt)))
				nrt++
			}
			for s := 0; s < 3; s++ {
				for k := 0; k < o.N; k++ {
					acts = append(acts, L(Z(3), Zi(first+k)))
				}
			}
		case "recv":
			if o.Req < nch && !failed[o.Req] {
				acts = append(acts, L(Z(4), Zi(o.Req)))
			}
		case "cancel":
			if o.Req < nch {
				acts = append(acts, L(Z(5), Zi(o.Req)))
				if !late[o.Req] {
					acts = append(acts, L(Z(6), Zi(o.Req)))
				}
			}
		}
	}
	for c := 0; c < nch; c++ { // final drain
		if !failed[c] {
			acts = append(acts, L(Z(4), Zi(c)))
		}
	}
	return LS(acts)
}

// c07LateCtx: cancellation is visible through Err() but Done() never signals.
type c07LateCtx struct {
	context.Context
	mu      sync.Mutex
	err     error
	armed   bool // the next Err() call parks until release is closed
	parked  chan struct{}
	release chan struct{}
}

func (c *c07LateCtx) Err() error {
	c.mu.Lock()
	if c.armed {
		c.armed = false
		p, rl := c.parked, c.release
		c.mu.Unlock()
		close(p)
		<-rl
		c.mu.Lock()
	}
	defer c.mu.Unlock()
	return c.err
}
func (c *c07LateCtx) arm() {
	c.mu.Lock()
	c.armed, c.parked, c.release = true, make(chan struct{}), make(chan struct{})
	c.mu.Unlock()
}
func (c *c07LateCtx) disarm() {
	c.mu.Lock()
	c.armed = false
	c.mu.Unlock()
}

// c07Kind: 0 a response (result/error), 1 a request (get/set), 2 anything else.
func c07Kind(o c07Op) int {
	if o.Get {
		return 1
	}
	switch o.Typ {
	case "", "result", "error":
		return 0
	case "get", "set":
		return 1
	}
	return 2
}
func (c *c07LateCtx) Done() <-chan struct{} { return nil }
func (c *c07LateCtx) cancel()               { c.mu.Lock(); c.err = context.Canceled; c.mu.Unlock() }

type c07Sender struct {
	c    *xmpp.Client
	comp *xmpp.Component
}

func (c07) Run(inp interface{}) Sx {
	in := inp.(c07In)
	st := newStub(nil, nil)
	router := xmpp.NewRouter()
	var mu sync.Mutex
	var ordinary []int64
	var reenter func(s xmpp.Sender) // set while a "reenter" op is being executed
	router.NewRoute().HandlerFunc(func(s xmpp.Sender, p stanza.Packet) {
		if iq, ok := p.(*stanza.IQ); ok {
			id := c07IQ(iq)
			mu.Lock()
			ordinary = append(ordinary, id)
			f := reenter
			reenter = nil
			mu.Unlock()
			if f != nil {
				f(s) // the handler sends a request of its own
			}
		}
	})
	var sender xmpp.Sender
	var sendIQ func(ctx context.Context, iq *stanza.IQ) (chan stanza.IQ, error)
	hook := &c07Transport{stubTransport: st}
	if in.Component {
		comp, _ := xmpp.NewComponent(xmpp.ComponentOptions{Domain: "c.localhost", Secret: "s"}, router, func(error) {})
		xmpp.VerifComponentSetTransport(comp, hook)
		sender, sendIQ = comp, comp.SendIQ
	} else {
		cfg := &xmpp.Config{TransportConfiguration: xmpp.TransportConfiguration{Address: "localhost:1"}, Jid: "u@localhost", Credential: xmpp.Password("p")}
		c, err := xmpp.NewClient(cfg, router, func(error) {})
		if err != nil {
			return L(SBytes("newclient-failed"))
		}
		xmpp.VerifSetTransport(c, hook)
		xmpp.VerifSetSession(c, xmpp.SMState{})
		sender, sendIQ = c, c.SendIQ
	}
	blocked := 0
	xid := 0
	get := false
	atyp := ""
	var routeSyncG func(id int, after <-chan struct{})
	routeSync := func(id int) { routeSyncG(id, nil) }
	routeSyncG = func(id int, after <-chan struct{}) {
		done := make(chan struct{})
		var gid int64
		x := xid
		xid = 0
		typ, from := stanza.IQTypeResult, "srv"
		if get {
			typ, from = stanza.IQTypeGet, "juliet@localhost/balcony" // somebody's request, same id
		}
		wire := x != 0
		tattr := ""
		if atyp != "" {
			wire = true
			if atyp != "result" && atyp != "error" {
				from = "juliet@localhost/balcony"
			}
			if atyp != "none" {
				tattr = fmt.Sprintf(" type='%s'", atyp)
			}
		} else {
			tattr = fmt.Sprintf(" type='%s'", typ)
		}
		xattr := ""
		if x != 0 {
			xattr = fmt.Sprintf(" xml:id='%d'", x)
		}
		get, atyp = false, ""
		go func() {
			defer close(done)
			atomic.StoreInt64(&gid, c07Gid())
			var pkt stanza.Packet
			if wire {
				// as it would arrive: decoded from the stream
				doc := fmt.Sprintf("<stream:stream xmlns='jabber:client' xmlns:stream='http://etherx.jabber.org/streams'><iq%s id='%d'%s from='%s'/>", tattr, id, xattr, from)
				d := xml.NewDecoder(strings.NewReader(doc))
				if _, err := stanza.InitStream(d); err != nil {
					return
				}
				p, err := stanza.NextPacket(d)
				if err != nil {
					return
				}
				pkt = p
			} else {
				iq, _ := stanza.NewIQ(stanza.Attrs{Type: typ, Id: fmt.Sprint(id), From: from})
				pkt = iq
			}
			xmpp.VerifRoute(router, sender, pkt)
		}()
		if !c07Returns(done, &gid, after) {
			mu.Lock()
			blocked++
			mu.Unlock()
		}
	}
	type req struct {
		ch     chan stanza.IQ
		cancel context.CancelFunc
		got    []int64
		closed bool
		failed bool
		late   bool
		lctx   *c07LateCtx
		id     string // the id it was ACCEPTED under ("" if refused or failed)
	}
	owner := map[string]*req{} // id -> the request whose SendIQ was accepted last under it
	var reqs []*req
	var refused []Sx
	scratch := 0
	read := func(rq *req) {
		if rq.ch == nil {
			return
		}
		select {
		case v, ok := <-rq.ch:
			if ok {
				rq.got = append(rq.got, c07IQ(&v))
			} else {
				rq.closed = true
			}
		default:
		}
	}
	for _, o := range in.Ops {
		mu.Lock()
		stuck := blocked > 0
		mu.Unlock()
		if stuck {
			break // a routing call never returned (it may hold the table lock): anything further would hang too
		}
		switch o.Op {
		case "sendiq":
			ctx, cancel := context.WithCancel(context.Background())
			var lctx *c07LateCtx
			if o.Late {
				lctx = &c07LateCtx{Context: context.Background()}
				ctx, cancel = lctx, lctx.cancel
			}
			iq, _ := stanza.NewIQ(stanza.Attrs{Type: stanza.IQTypeGet, Id: fmt.Sprint(o.ID), To: "srv"})
			hook.mu2.Lock()
			hook.failNext = o.Fail
			hook.onWrite = nil
			if o.Early && !o.Fail {
				id := o.ID
				hook.onWrite = func() { routeSync(id) }
			}
			hook.mu2.Unlock()
			hook.mu2.Lock()
			before := hook.attempts
			hook.mu2.Unlock()
			ch, err := sendIQ(ctx, iq)
			hook.mu2.Lock()
			wrote := hook.attempts != before
			early := hook.onWrite
			hook.failNext, hook.onWrite = false, nil
			hook.mu2.Unlock()
			// refused: an error although nothing was handed to the transport (the id is awaiting its response)
			isRefused := err != nil && !wrote
			rq := &req{ch: ch, cancel: cancel, failed: err != nil, late: o.Late, lctx: lctx}
			if (err == nil && o.Fail) || (err != nil && !o.Fail && !isRefused) {
				rq.got = append(rq.got, -7) // unexpected SendIQ result
			}
			if isRefused {
				refused = append(refused, Zi(len(reqs)))
			}
			if err == nil {
				rq.id = fmt.Sprint(o.ID)
				owner[rq.id] = rq
			} else if !isRefused {
				delete(owner, fmt.Sprint(o.ID)) // registered, write failed, unregistered again
			}
			reqs = append(reqs, rq)
			if early != nil {
				early() // nothing was written (refused): the "early" response still arrives, now
			}
		case "arrive":
			xid = o.XID
			get, atyp = o.Get, o.Typ
			routeSync(o.ID)
		case "csend":
			type cres struct {
				ch     chan stanza.IQ
				err    error
				cancel context.CancelFunc
			}
			hook.mu2.Lock()
			hook.failNext, hook.onWrite = false, nil
			hook.mu2.Unlock()
			call := func(id string) cres {
				ctx, cancel := context.WithCancel(context.Background())
				iq, _ := stanza.NewIQ(stanza.Attrs{Type: stanza.IQTypeGet, Id: id, To: "srv"})
				ch, err := sendIQ(ctx, iq)
				return cres{ch, err, cancel}
			}
			// unsteered rounds under scratch ids (not part of the schedule): the callers are released together
			racy := 0
			for rd := 0; rd < o.Round; rd++ {
				scratch++
				sid := fmt.Sprint(1000 + scratch)
				out := make([]cres, o.N)
				start := make(chan struct{})
				var wg sync.WaitGroup
				for k := 0; k < o.N; k++ {
					wg.Add(1)
					go func(k int) { defer wg.Done(); <-start; out[k] = call(sid) }(k)
				}
				close(start)
				wg.Wait()
				acc := 0
				for _, c := range out {
					if c.err == nil {
						acc++
					}
				}
				if acc != 1 {
					racy++
				}
				for _, c := range out {
					c.cancel()
				}
			}
			// the observed round
			hook.mu2.Lock()
			before := hook.attempts
			hook.mu2.Unlock()
			out := make([]cres, o.N)
			var wg sync.WaitGroup
			fin := make(chan struct{})
			var armed *c07LateCtx
			if o.Steer && o.Req < len(reqs) && reqs[o.Req].lctx != nil {
				armed = reqs[o.Req].lctx
				armed.arm()
			}
			id := fmt.Sprint(o.ID)
			start := make(chan struct{})
			for k := 0; k < o.N; k++ {
				wg.Add(1)
				go func(k int) {
					defer wg.Done()
					if k > 0 || armed == nil {
						<-start
					}
					out[k] = call(id)
				}(k)
			}
			go func() { wg.Wait(); close(fin) }()
			if armed != nil {
				// caller 0 goes first and parks in the stale entry's Err(), i.e. inside the pending-check
				select {
				case <-armed.parked:
				case <-fin:
				case <-time.After(20 * time.Millisecond):
				}
			}
			close(start)
			if armed != nil {
				// the other callers get their chance while caller 0 is parked (they wait for it if the check holds the table lock)
				select {
				case <-fin:
				case <-time.After(4 * time.Millisecond):
				}
				armed.disarm()
				close(armed.release)
			}
			select {
			case <-fin:
			case <-time.After(60 * time.Second): // only reached when a SendIQ call really hangs
				mu.Lock()
				blocked++
				mu.Unlock()
			}
			hook.mu2.Lock()
			wrote := hook.attempts - before
			hook.mu2.Unlock()
			sort.SliceStable(out, func(a, b int) bool { return out[a].err == nil && out[b].err != nil }) // accepted first
			acc := 0
			for k, c := range out {
				cancel := c.cancel
				if cancel == nil {
					cancel = func() {}
				}
				rq := &req{ch: c.ch, cancel: cancel, failed: c.err != nil}
				if c.err == nil {
					rq.id = id
					owner[id] = rq
					acc++
				} else {
					refused = append(refused, Zi(len(reqs)))
				}
				if k == 0 && racy > 0 {
					rq.got = append(rq.got, -8) // an unsteered round accepted none or several of the concurrent callers
				}
				reqs = append(reqs, rq)
			}
			if wrote != acc {
				reqs[len(reqs)-o.N].got = append(reqs[len(reqs)-o.N].got, -7) // refused but written, or accepted and not written
			}
		case "reenter":
			rq := &req{}
			newID := 20 + len(reqs)
			mu.Lock()
			reenter = func(s xmpp.Sender) {
				ctx, cancel := context.WithCancel(context.Background())
				iq, _ := stanza.NewIQ(stanza.Attrs{Type: stanza.IQTypeGet, Id: fmt.Sprint(newID), To: "srv"})
				ch, err := s.SendIQ(ctx, iq)
				rq.ch, rq.cancel, rq.failed = ch, cancel, err != nil
				if err == nil {
					mu.Lock()
					rq.id = fmt.Sprint(newID)
					owner[rq.id] = rq
					mu.Unlock()
				}
			}
			mu.Unlock()
			routeSync(o.ID)
			mu.Lock()
			ran := reenter == nil
			reenter = nil
			mu.Unlock()
			if !ran || rq.cancel == nil {
				// the response did not reach the ordinary handler (it was delivered to a pending
				// request) or the handler is stuck: the slot stays, unused
				rq.cancel = func() {}
				rq.got = append(rq.got, -9)
			}
			reqs = append(reqs, rq)
		case "burst":
			// all copies reach the table lookup together: they queue on the exported lock
			router.IQResultRouteLock.Lock()
			var wg sync.WaitGroup
			released := make(chan struct{}) // the watchdog of each call starts once the lock is released
			for k := 0; k < o.N; k++ {
				wg.Add(1)
				go func() { defer wg.Done(); routeSyncG(o.ID, released) }()
			}
			time.Sleep(2 * time.Millisecond)
			router.IQResultRouteLock.Unlock()
			close(released)
			wg.Wait()
		case "recv":
			if o.Req < len(reqs) {
				read(reqs[o.Req])
			}
		case "cancel":
			if o.Req < len(reqs) {
				rq := reqs[o.Req]
				rq.cancel()
				// let the clean-up goroutine run (a late context never wakes it): if this request registered the
				// id last, wait until its entry is gone (taken by a response earlier, or removed now) - however
				// long the scheduler takes; otherwise the clean-up has nothing to remove: a short grace only
				if !rq.late && rq.id != "" {
					if owner[rq.id] == rq {
						for dl := time.Now().Add(60 * time.Second); time.Now().Before(dl); {
							router.IQResultRouteLock.RLock()
							_, there := router.IQResultRoutes[rq.id]
							router.IQResultRouteLock.RUnlock()
							if !there {
								break
							}
							time.Sleep(100 * time.Microsecond)
						}
						delete(owner, rq.id)
					}
					for k := 0; k < 20; k++ {
						time.Sleep(100 * time.Microsecond)
					}
				}
			}
		}
	}
	var chs []Sx
	for _, rq := range reqs {
		read(rq) // drain
		read(rq) // observe close
		ids := make([]Sx, len(rq.got))
		for i, v := range rq.got {
			ids[i] = Z(v)
		}
		chs = append(chs, L(LS(ids), B(len(rq.got) > 0 && rq.closed)))
		rq.cancel()
	}
	mu.Lock()
	defer mu.Unlock()
	ord := make([]Sx, len(ordinary))
	sorted := append([]int64{}, ordinary...)
	_ = sort.Slice
	for i, v := range sorted {
		ord[i] = Z(v)
	}
	return L(B(false), LS(chs), LS(ord), Zi(blocked), LS(refused))
}

// c07Gid: the id of the calling goroutine ("goroutine 123 [running]:").
func c07Gid() int64 {
	var b [64]byte
	n := runtime.Stack(b[:], false)
	f := strings.Fields(string(b[:n]))
	if len(f) < 2 {
		return 0
	}
	id, _ := strconv.ParseInt(f[1], 10, 64)
	return id
}

// c07GoState: the scheduler state of goroutine gid as the runtime prints it ("running", "runnable",
// "chan send", "sync.RWMutex.Lock", ...), "" when it is gone.
func c07GoState(gid int64) string {
	buf := make([]byte, 1<<20)
	for {
		n := runtime.Stack(buf, true)
		if n < len(buf) {
			buf = buf[:n]
			break
		}
		buf = make([]byte, 2*len(buf))
	}
	txt := "\n" + string(buf)
	key := fmt.Sprintf("\ngoroutine %d [", gid)
	i := strings.Index(txt, key)
	if i < 0 {
		return ""
	}
	rest := txt[i+len(key):]
	j := strings.IndexAny(rest, ",]")
	if j < 0 {
		return ""
	}
	return rest[:j]
}

// c07Returns waits for a routing call to return.  A call is reported as blocked by what its goroutine is
// doing, not by how long it takes: it must be seen PARKED on a channel or lock operation (not running, not
// runnable) in six consecutive samples 50 ms apart while nothing else in the scenario is going to move - on a
// loaded machine a call that is merely slow stays runnable and is waited for (bound: 60 s).  When after is
// non-nil the clock starts once it is closed (the harness itself holds the table lock until then).
func c07Returns(done <-chan struct{}, gid *int64, after <-chan struct{}) bool {
	if after != nil {
		select {
		case <-done:
			return true
		case <-after:
		}
	}
	select {
	case <-done:
		return true
	case <-time.After(100 * time.Millisecond):
	}
	parked := 0
	for deadline := time.Now().Add(60 * time.Second); time.Now().Before(deadline); {
		select {
		case <-done:
			return true
		case <-time.After(50 * time.Millisecond):
		}
		g := atomic.LoadInt64(gid)
		if g == 0 {
			continue // not even started yet
		}
		switch st := c07GoState(g); {
		case strings.HasPrefix(st, "chan send"), strings.HasPrefix(st, "chan receive"), strings.HasPrefix(st, "select"),
			strings.HasPrefix(st, "semacquire"), strings.HasPrefix(st, "sync."):
			parked++
			if parked >= 6 {
				select {
				case <-done:
					return true
				default:
				}
				return false
			}
		default:
			parked = 0
		}
	}
	return false
}

// c07IQ: an IQ as the observation records it: its id, plus 100 when it is a request (get/set).
func c07IQ(iq *stanza.IQ) int64 {
	var id int64
	fmt.Sscan(iq.Id, &id)
	switch iq.Type {
	case stanza.IQTypeResult, stanza.IQTypeError:
	case stanza.IQTypeGet, stanza.IQTypeSet:
		id += 100
	default:
		id += 200 // type missing or non-standard
	}
	return id
}

// c07Transport: stub whose Write can fail on demand or call back (response "arrives"
// while the request is being written).
type c07Transport struct {
	*stubTransport
	mu2      sync.Mutex
	failNext bool
	onWrite  func()
	attempts int // calls of Write, failing ones included
}

func (t *c07Transport) Write(p []byte) (int, error) {
	t.mu2.Lock()
	fail, cb := t.failNext, t.onWrite
	t.failNext, t.onWrite = false, nil
	t.attempts++
	t.mu2.Unlock()
	if fail {
		return 0, fmt.Errorf("stub: write failed")
	}
	n, err := t.stubTransport.Write(p)
	if cb != nil {
		cb()
	}
	return n, err
}

// Oracle: model-free statement of C07 on the observation.
func (c07) Oracle(inp interface{}, obs Sx) (string, string) {
	in := inp.(c07In)
	if len(obs.L) != 5 {
		return "no observation", "shape"
	}
	if obs.L[3].Z != 0 {
		return fmt.Sprintf("%d routing calls did not return (blocked on a pending request's channel)", obs.L[3].Z), "router-blocked"
	}
	// expected: walk the schedule keeping the pending table by id (latest registration wins)
	pending := map[int]int{} // id -> request index
	cancelled := map[int]bool{}
	var reqID []int
	var failed []bool
	want := map[int]int{} // request -> number of values it must have received (0/1)
	wantOrd := map[int]int{}
	lateCancelled := map[int]bool{}
	wantRefused := map[int]bool{}
	var isLate []bool
	deliver := func(id int) {
		if rq, ok := pending[id]; ok {
			delete(pending, id)
			if lateCancelled[rq] {
				// cancelled but not yet cleaned up: the response is routed like any other packet
				wantOrd[id]++
				return
			}
			want[rq] = 1
			return
		}
		wantOrd[id]++
	}
	for _, o := range in.Ops {
		switch o.Op {
		case "sendiq":
			rq := len(reqID)
			reqID = append(reqID, o.ID)
			failed = append(failed, o.Fail)
			isLate = append(isLate, o.Late)
			if cur, ok := pending[o.ID]; ok && !lateCancelled[cur] {
				// the id is awaiting its response: the new request is refused (error, nothing written) and the
				// earlier request keeps its entry - "never to another request"
				wantRefused[rq] = true
				failed[rq] = true
				if o.Early && !o.Fail {
					deliver(o.ID)
				}
			} else if !o.Fail {
				pending[o.ID] = rq // free id, or the entry of a request whose context has ended
				if o.Early {
					deliver(o.ID)
				}
			} else {
				// registered (over an ended request's entry, if any), write failed, unregistered again
				delete(pending, o.ID)
			}
		case "arrive":
			switch c07Kind(o) {
			case 1:
				wantOrd[100+o.ID]++ // a request: ordinary routes, the pending request (if any) keeps waiting
			case 2:
				wantOrd[200+o.ID]++ // neither a request nor a response: ordinary routes as well
			default:
				deliver(o.ID)
			}
		case "csend":
			// concurrent callers under one id: whatever their order, only the first can be accepted, and none
			// while an earlier request with that id is awaiting its response
			for k := 0; k < o.N; k++ {
				rq := len(reqID)
				reqID = append(reqID, o.ID)
				failed = append(failed, false)
				isLate = append(isLate, false)
				if cur, ok := pending[o.ID]; ok && !lateCancelled[cur] {
					wantRefused[rq] = true
				} else {
					pending[o.ID] = rq
				}
			}
		case "reenter":
			// generated with ids nobody is waiting for: ordinary routing, whose handler sends request 20+index
			deliver(o.ID)
			rq := len(reqID)
			reqID = append(reqID, 20+rq)
			failed = append(failed, false)
			isLate = append(isLate, false)
			pending[20+rq] = rq
		case "burst":
			for k := 0; k < o.N; k++ {
				deliver(o.ID)
			}
		case "cancel":
			if o.Req < len(reqID) && !cancelled[o.Req] {
				cancelled[o.Req] = true
				if isLate[o.Req] {
					lateCancelled[o.Req] = true
				} else if cur, ok := pending[reqID[o.Req]]; ok && cur == o.Req {
					delete(pending, reqID[o.Req])
				}
			}
		}
	}
	chs := obs.L[1].L
	if len(chs) != len(reqID) {
		return "request count differs", "shape"
	}
	gotRefused := map[int]bool{}
	for _, v := range obs.L[4].L {
		gotRefused[int(v.Z)] = true
	}
	for rq := range reqID {
		if wantRefused[rq] && !gotRefused[rq] {
			return fmt.Sprintf("request %d reuses id %d while an earlier request with that id is awaiting its response: SendIQ did not refuse it (it must return an error and write nothing; the earlier request would lose its entry)", rq, reqID[rq]), "clash-not-refused"
		}
		if !wantRefused[rq] && gotRefused[rq] {
			return fmt.Sprintf("request %d (id %d): SendIQ failed without writing although no request with that id is awaiting a response", rq, reqID[rq]), "refused-unexpectedly"
		}
	}
	for rq, ch := range chs {
		for _, v := range ch.L[0].L {
			if v.Z == -8 {
				return fmt.Sprintf("concurrent SendIQ calls under one id (requests %d..): in an unsteered round not exactly one of them was accepted", rq), "concurrent-clash"
			}
			if v.Z >= 200 {
				return fmt.Sprintf("request %d (id %d) was handed an IQ that is neither a result nor an error (type missing or non-standard) as its response", rq, reqID[rq]), "non-response-delivered"
			}
			if v.Z >= 100 {
				return fmt.Sprintf("request %d (id %d) was handed a get/set IQ (somebody's request with the same id) as its response", rq, reqID[rq]), "request-delivered"
			}
		}
	}
	for rq, ch := range chs {
		got := ch.L[0].L
		if len(got) != want[rq] {
			return fmt.Sprintf("request %d (id %d): %d responses delivered on its channel, expected %d", rq, reqID[rq], len(got), want[rq]), fmt.Sprintf("delivered-%d-want-%d", len(got), want[rq])
		}
		for _, v := range got {
			if v.Z != int64(reqID[rq]) {
				return fmt.Sprintf("request %d (id %d) received a response with id %d", rq, reqID[rq], v.Z), "wrong-owner"
			}
		}
		if len(got) == 1 && ch.L[1].Z != 1 {
			return fmt.Sprintf("request %d: channel not closed after the delivery", rq), "not-closed"
		}
	}
	gotOrd := map[int]int{}
	for _, v := range obs.L[2].L {
		gotOrd[int(v.Z)]++
	}
	for id := 0; id <= 300; id++ {
		if gotOrd[id] != wantOrd[id] {
			if id >= 200 {
				return fmt.Sprintf("IQs of missing/non-standard type with id %d: %d handed to the ordinary routes, expected %d", id-200, gotOrd[id], wantOrd[id]), "other-ordinary-count"
			}
			if id >= 100 {
				return fmt.Sprintf("get requests with id %d: %d handed to the ordinary routes, expected %d", id-100, gotOrd[id], wantOrd[id]), "request-ordinary-count"
			}
			return fmt.Sprintf("responses with id %d: %d handed to the ordinary routes, expected %d", id, gotOrd[id], wantOrd[id]), "ordinary-count"
		}
	}
	return "", ""
}

func (c07) Key(inp interface{}) (string, bool) {
	in := inp.(c07In)
	var b strings.Builder
	fmt.Fprintf(&b, "c%v:", in.Component)
	nreq, narr := 0, 0
	for _, o := range in.Ops {
		fmt.Fprintf(&b, "%s%d.%d.%d%v%v%v%v%s%v,", o.Op[:2], o.ID, o.Req, o.N, o.Fail, o.Early, o.Late, o.Get, o.Typ, o.Steer)
		if o.Typ != "" {
			hist("arrive:type=" + o.Typ)
		}
		if o.Steer {
			hist("csend:steered")
		}
		hist("op:" + o.Op)
		if o.Get {
			hist("arrive:get-request")
		}
		if o.Op == "sendiq" {
			nreq++
		}
		if o.Op == "arrive" || o.Op == "burst" || o.Early {
			narr++
		}
	}
	return b.String(), nreq > 0 && narr > 0
}
