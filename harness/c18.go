package main

// C18: the keep-alive goroutine (client.go keepalive, reached through the hook
// xmpp.VerifKeepalive) and XMPPTransport.Ping, against Model/Keepalive.v.
//
// Tick counts depend on the wall clock, so the schedule handed to the model is the one
// OBSERVED (number of successful pings before the terminating event + the kind of that
// event); the model has to reproduce the rest of the observation (failed ping, Close,
// return, nothing afterwards, bytes on the wire).  Timestamps never reach the model;
// the direct oracle uses them only through bounds that hold on any machine (the j-th
// ping cannot come earlier than j intervals after the start; late pings after quit are
// bounded by the fires that can have happened) plus ONE deliberately loose liveness
// bound (at least a third of the nominal number of pings, re-tried up to 3 times).

import (
	"bytes"
	"context"
	"crypto/tls"
	"encoding/json"
	"errors"
	"fmt"
	"io"
	"math/rand"
	"net"
	"net/http"
	"os"
	"runtime"
	"strings"
	"sync"
	"sync/atomic"
	"time"

	xmpp "gosrc.io/xmpp"
	"nhooyr.io/websocket"
)

const (
	kaPingOk = iota
	kaPingFail
	kaClose
	kaReturn // the loop is over: the goroutine returned; in e2e runs: the session has ended (+ grace)
	kaPanic
	kaCloseOther // e2e: transport.Close called by somebody else than the keep-alive loop (kept out of the log)
)

type c18Obs struct {
	NSucc     int     `json:"nsucc"`          // successful pings before the terminating event
	SrvN      int     `json:"srvn,omitempty"` // tcp: bytes the server read after the stream header
	Attempts  int     `json:"attempts"`       // runs needed to pass the loose liveness bound (max 3)
	PingUs    []int64 `json:"ping_us"`        // time of every ping since the start (microseconds)
	CloseUs   int64   `json:"close_us"`       // when the harness closed quit (-1: never)
	ReturnUs  int64   `json:"return_us"`      // when the goroutine was seen to return (-1: never)
	SetupErr  string  `json:"setup_err,omitempty"`
	LatePings int     `json:"late_pings"` // pings logged after quit was closed
	// conn kind: payloads of the conn.Write calls made by each Ping
	PingWrites [][]string `json:"ping_writes,omitempty"`
	ConnCloses int        `json:"conn_closes,omitempty"` // conn kind: net.Conn.Close calls
	ErrCalls   int        `json:"err_calls,omitempty"`   // receive loop present: ErrorHandler calls
	DiscEvents int        `json:"disc_events,omitempty"` // receive loop present: Disconnected events
	// e2e: keep-alive bytes at the server when the session had ended (+ grace) and 10 intervals later
	SrvAtEnd   int  `json:"srv_at_end,omitempty"`
	SrvFinal   int  `json:"srv_final,omitempty"`
	ConnectErr bool `json:"connect_err,omitempty"`
	// e2e, while the session is up: successful pings so far / keep-alive bytes the server then saw in the XML stream (bounded wait)
	MidWant          int       `json:"mid_want,omitempty"`
	MidGot           int       `json:"mid_got,omitempty"`
	LostWhileUp      bool      `json:"lost_while_up,omitempty"`       // e2e: Disconnected before the harness ended the session
	RawBad           string    `json:"raw_bad,omitempty"`             // e2e over TLS: first thing on the socket that is not a TLS record
	DetectUs         int64     `json:"detect_us,omitempty"`           // ws: from the cut to the Disconnected event
	PanicMsg         string    `json:"panic_msg,omitempty"`           // the keep-alive goroutine panicked with this
	CloseAfterFail   bool      `json:"close_after_fail,omitempty"`    // the failed ping was answered by Close
	AfterOwnCloseTag string    `json:"after_own_close_tag,omitempty"` // e2e discslow: what the client wrote behind its own closing tag
	Re               *c18ReObs `json:"re,omitempty"`                  // kind re: sessions and loops on one client object
	Wire             string    `json:"wire,omitempty"`                // tcp/e2e: what the server read in the XML stream where keep-alives go
}

// kaIsWS: XML white space. A whitespace keep-alive is any non-empty run of it (the property
// does not fix the byte: RFC 6120 4.6.1 names the space, the code writes a line feed).
func kaIsWS(b byte) bool { return b == ' ' || b == '\t' || b == '\r' || b == '\n' }
func kaAllWS(s []byte) bool {
	for _, b := range s {
		if !kaIsWS(b) {
			return false
		}
	}
	return true
}

// kaUnits: how many keep-alives w bytes of white space are, when p pings were made: one byte
// each, or the same number of bytes each (exact = every ping arrived); after a cut the
// server holds a prefix.
func kaUnits(w, p int, exact bool) int {
	if p <= 0 || w <= p {
		return w
	}
	if exact {
		if w%p == 0 {
			return p
		}
		return w
	}
	u := (w + p - 1) / p
	return (w + u - 1) / u
}

// kaWireSx: (keep-alives the server read, only white space?) as compared with the model.
func kaWireSx(wire []byte, p int, exact bool) (Sx, int) {
	n := kaUnits(len(wire), p, exact)
	return L(Zi(n), B(kaAllWS(wire))), n
}

type c18In struct {
	Kind     string        `json:"kind"`               // run phase quitfirst fail badiv tcprun tcpfail conn e2e ws re
	IvUs     int           `json:"iv_us"`              // interval, microseconds
	Ticks    int           `json:"ticks,omitempty"`    // run/phase/tcprun: quit is closed after Ticks intervals ...
	PhasePct int           `json:"phase,omitempty"`    // ... plus this percentage of one interval
	FailAt   int           `json:"fail_at,omitempty"`  // fail: the k-th Ping returns an error
	CutAfter int           `json:"cut_after"`          // tcpfail: the server drops the connection once it has read this many bytes
	Fin      bool          `json:"fin,omitempty"`      // tcpfail: orderly close (FIN) instead of a reset
	Slow     bool          `json:"slow,omitempty"`     // tcpfail: nobody answers the stream close, Close sits out ConnectTimeout (1 s)
	Script   [][2]int      `json:"script,omitempty"`   // conn: (n, err?) returned by the successive conn.Write calls, then (len, nil); after an error every write fails
	Recv     bool          `json:"recv,omitempty"`     // conn: a real Client receive loop blocked in Read on the same connection, sharing quit
	Variant  string        `json:"variant,omitempty"`  // re: plain (drop, Resume) | staleclose (stream error, keep-alive fails while the receiver sits in Close, Resume) | hookfail (first Resume's PostResumeHook fails) | closewait (a keep-alive fails towards a peer gone silent; its Close is still waiting for the peer's closing tag when the connection is reset and the client resumed) | serrmgr (stream error; the StreamError handler disconnects, backs off and resumes before it returns, as a StreamManager does)
	TLS      string        `json:"tls,omitempty"`      // e2e: "" plain TCP | verify (STARTTLS, RootCAs) | skip (STARTTLS, InsecureSkipVerify)
	End      string        `json:"end,omitempty"`      // e2e: drop (server resets) | srvclose (server sends </stream:stream>) | disconnect (Client.Disconnect)
	Hist     []c18HistStep `json:"hist,omitempty"`     // re/hist: the sessions of the history, each with how it ends and how the next one is established
	Suffix   []int         `json:"suffix,omitempty"`   // model only: what the schedule goes on offering (0 tick, 1 quit)
	HBlock   int           `json:"hblock,omitempty"`   // e2e: the application's Disconnected handler blocks for this many intervals (0: returns at once)
	Obs      *c18Obs       `json:"observed,omitempty"` // filled by Run
}

type c18 struct{}

func init() { register(c18{}) }

func (c18) ID() string    { return "C18" }
func (c18) RunFn() string { return "run_C18" }
func (c18) Workers() int  { return 8 }

// Journal: a crash of a library goroutine (keepalive started by Client.Connect) kills the process; the
// driver then finds the case through the per-worker journal.
func (c18) Journal() bool { return true }
func (c18) Rule() string {
	return "keepalive goroutine (VerifKeepalive) on a recording stub transport, intervals 1-10 ms: run for T then close quit; quit closed at a random phase of the ticker (0-5 intervals + 0-99 %, incl. exactly on a tick); quit closed before the goroutine starts; Ping failing at the k-th call for every k in 1..10 x interval; interval 0 / negative. Real XMPPTransport over loopback TCP (scripted server records every byte after the stream header): healthy run, server resets / closes the connection after reading n bytes (Close waiting out its timeout or answered at once). Real XMPPTransport over a scripted net.Conn: every conn.Write / conn.Close call, scripted write results (short and over-long counts; errors of every KIND: plain, a net.Error with Timeout() true as an expired write deadline or ETIMEDOUT gives, a temporary net.Error, io.EOF, os.ErrDeadlineExceeded, io.ErrShortWrite; after an error the connection stays dead for writing IN THE SAME WAY while reads block: whatever the kind, the keep-alive could not be written, so Close must follow and the loss be reported), with and without a real Client receive loop blocked on the same connection and sharing quit: the connection must get closed after the failed keep-alive and the loss be reported (ErrorHandler, Disconnected). End to end: real Client.Connect (KeepaliveInterval 2-5 ms) against the scripted XMPP server (SASL PLAIN + bind), session up for T, then ended by a server reset / the server's </stream:stream> / Client.Disconnect at a random phase; Ping and Close calls logged by a wrapper around the client's transport, keep-alive bytes counted at the server; after the Disconnected event + grace nothing may be pinged for 10 more intervals; sessions ended by Client.Disconnect with a server that is slow to answer the closing tag (a TCP relay withholds its answers and records what the client writes; Close waits ConnectTimeout, 1 s): from the call of Disconnect on (+ half an interval) no Ping, and nothing but at most the one keep-alive already under way behind the client's own </stream:stream>; sessions ended by a server <stream:error/> with application callbacks that BLOCK (the StateStreamError handler for 6.5 intervals, the error callback for 2; they run synchronously in the receive loop): from the moment the stream error is received (+ half an interval) no Ping call and no keep-alive byte at the server, although the handlers are still running; the same over real STARTTLS with the certificate verified (RootCAs) and with InsecureSkipVerify: the keep-alive bytes must show up in the DECRYPTED stream at the server, the raw socket must carry nothing but TLS records, the session must not be torn down while it is up. WebSocket transport end to end (loopback nhooyr.io/websocket server, RFC 7395 open exchange, keepalive + receive loop started as Client.Connect does): pings answered for T, then the TCP connection underneath is reset / closed: the failed keep-alive (a WebSocket ping control frame, not whitespace: only the closed-so-that-the-loss-is-reported clause is checked there) the loss must be reported exactly once (ErrorHandler + Disconnected) by whichever path notices first - the transport's reader or the failing keep-alive, which then calls Close - and the keep-alive loop be over; and a peer that goes SILENT without closing (a TCP relay stops forwarding; reads just block): only the keep-alive can notice, its ping times out after the library's 5 s, Close follows, the loss is reported once. Sessions on ONE Client object (the Transport is re-used by Resume; every Ping/Close logged with its goroutine, keep-alive bytes counted per server connection): drop then Resume; a stream error during which the keep-alive fails while the receiver sits in Close (ConnectTimeout 1 s), then Resume: the Close entered for session 1 must not close session 2's connection; a stream error whose StateStreamError handler does what a StreamManager does (Disconnect, back-off, Resume, returning only when the new session is up): no keep-alive of the dead session on ANY connection of the client from the stream error until the new session is up; the loop HELD at the entry of transport.Ping (i.e. past its poll of quit: where the scheduler may stop it) while the session ends and the client is resumed: that one ping may go out, on the new connection, and is the only one; held again after a refused re-dial so that the ping fails for want of a connection, and at the entry of Close while a second re-dial succeeds: the loop must not answer that failure with Close (it would close the new session); a keep-alive that fails towards a peer gone silent (TCP relay frozen, failure injected at the Transport boundary) whose Close is still waiting for the peer's closing tag (ConnectTimeout 1 s) when the connection is reset and the client resumed: when that Close finally acts, the second session's transport must be untouched - its keep-alives go on being written on ITS connection, nothing closes or forgets it; a PostConnectHook that fails (Connect returns its error: the session must not be left up without keep-alive and receiver, and the client's state must be Disconnected again); a PostResumeHook that fails once: exactly one keep-alive loop per established session, none left by the failed attempt, its session closed. HISTORIES of 2-4 sessions on one Client object (each ended by a server reset / Disconnect answered at once / Disconnect with a server slow to answer the closing tag / the server's closing tag; the next one established by Resume or Connect, at once or after a pause of 2-6 intervals): for EVERY session of the history, not only the first, no Ping by its loop once it is over (one already under way tolerated for Disconnect), at most one keep-alive byte behind the client's own </stream:stream> on its connection, at most one goroutine pinging while it is up and at most 1.5 x up-time/interval + 3 pings, and it is not reported lost before somebody ends it. The application's Disconnected handler as a dimension of every session end (histories: each session's handler returns at once / blocks for 3-8 intervals / blocks until the harness has watched the connection for 3-8 intervals and releases it; single-session end-to-end cases ended by reset, server close and Disconnect with a handler blocking 4-8 intervals; stream error with blocking handlers above): the session is over when the handler is ENTERED (quit is closed before the loss is reported, C18_session_end_closes_quit / C18_quit_before_callbacks), so from then (+ half an interval, one ping under way tolerated) no Ping while the handler is still running. A negative KeepaliveInterval through NewClient/Connect (a crash of the library's goroutine is found through the crash journal). WebSocket: Disconnect while a keep-alive ping awaits its pong (the failed ping is answered with a second Close, which must not panic). The liveness bound applies to windows of at least 6 intervals and 30 ms. The model receives the observed schedule (successful pings before the terminating event, how the run ended) plus a random continuation and must reproduce the ordered log ping-ok/ping-failed/Close/loop-over, the number of keep-alives the server reads, the calls on the connection and the reporting of the loss. A keep-alive is compared as a CLASS: any non-empty run of XML white space (space, tab, CR, LF) written by one Ping, on the connection and in the stream the server reads; what happens for an interval <= 0 is outside the property and not compared beyond nothing-sent-nothing-closed; distinct = scenario parameters; non-trivial = at least 2 pings before the terminating event"
}

func c18Suffix(r *rand.Rand) []int {
	n := r.Intn(5)
	s := make([]int, n)
	for i := range s {
		s[i] = r.Intn(2)
	}
	return s
}

func (c18) Gen(r *rand.Rand, tier string) []interface{} {
	thorough := tier == "thorough"
	var out []interface{}
	add := func(in *c18In) {
		in.Suffix = c18Suffix(r)
		out = append(out, in)
	}
	ivs := []int{1000, 2000, 3000, 5000, 10000}
	// run for T, then close quit
	for _, iv := range ivs {
		for _, t := range []int{3, 8, 15, 30} {
			add(&c18In{Kind: "run", IvUs: iv, Ticks: t})
		}
	}
	nrun, nphase, reps := 20, 60, 1
	if thorough {
		nrun, nphase, reps = 300, 1200, 4
	}
	for i := 0; i < nrun; i++ {
		t := 3 + r.Intn(40)
		if thorough && r.Intn(10) == 0 {
			t = 60 + r.Intn(60)
		}
		add(&c18In{Kind: "run", IvUs: 1000 * (1 + r.Intn(10)), Ticks: t})
	}
	// write failure at the k-th keep-alive
	for rep := 0; rep < reps; rep++ {
		for k := 1; k <= 10; k++ {
			for _, iv := range []int{1000, 2000, 5000, 10000} {
				if thorough && rep > 0 {
					iv = 1000 * (1 + r.Intn(10))
				}
				add(&c18In{Kind: "fail", IvUs: iv, FailAt: k})
			}
		}
	}
	if thorough {
		for _, k := range []int{25, 50, 100} {
			add(&c18In{Kind: "fail", IvUs: 1000, FailAt: k})
		}
	}
	// quit already closed when the goroutine starts
	for rep := 0; rep < 3*reps; rep++ {
		for _, iv := range []int{1000, 2000, 5000, 10000} {
			add(&c18In{Kind: "quitfirst", IvUs: iv})
		}
	}
	// quit at a random phase of the ticker
	for i := 0; i < nphase; i++ {
		in := &c18In{Kind: "phase", IvUs: 1000 * (1 + r.Intn(10)), Ticks: r.Intn(6), PhasePct: r.Intn(100)}
		switch r.Intn(4) {
		case 0:
			in.PhasePct = 0 // together with a tick
		case 1:
			in.PhasePct = []int{1, 2, 98, 99}[r.Intn(4)]
		}
		add(in)
	}
	// outside the property's domain: what the code does with a non-positive interval
	add(&c18In{Kind: "badiv", IvUs: 0})
	add(&c18In{Kind: "badiv", IvUs: -1000})
	// real TCP transport
	ntcp, nfail, nslow := 6, 8, 2
	if thorough {
		ntcp, nfail, nslow = 40, 60, 8
	}
	for i := 0; i < ntcp; i++ {
		iv := 2000
		if i%3 == 2 {
			iv = 1000 * (1 + r.Intn(5))
		}
		add(&c18In{Kind: "tcprun", IvUs: iv, Ticks: 15 + r.Intn(10)})
	}
	for i := 0; i < nfail; i++ {
		add(&c18In{Kind: "tcpfail", IvUs: 1000 * (1 + r.Intn(4)), CutAfter: i % 5, Fin: i%4 == 3})
	}
	for i := 0; i < nslow; i++ {
		add(&c18In{Kind: "tcpfail", IvUs: 2000, CutAfter: 1 + i%3, Fin: i%2 == 1, Slow: true})
	}
	// real XMPPTransport over a scripted net.Conn: every conn.Write call of Ping and its result
	// (count relative to a one-byte payload, error kind: 0 none, 1 plain, 2 timeout net.Error, 3 temporary
	// net.Error, 4 io.EOF, 5 os.ErrDeadlineExceeded, 6 io.ErrShortWrite)
	bad := [][2]int{{0, 0}, {2, 0}, {0, 1}, {1, 1}, {-1, 1}, {5, 0}, {0, 2}, {0, 3}, {0, 4}, {0, 5}, {0, 6}, {1, 2}}
	nconn := 1
	if thorough {
		nconn = 6
	}
	for rep := 0; rep < nconn; rep++ {
		for _, b := range bad {
			for _, k := range []int{1, 2, 3 + r.Intn(8)} {
				sc := make([][2]int, 0, k)
				for j := 1; j < k; j++ {
					sc = append(sc, [2]int{1, 0})
				}
				add(&c18In{Kind: "conn", IvUs: 1000 * (1 + r.Intn(3)), Script: append(sc, b)})
			}
		}
		for i := 0; i < 4; i++ {
			sc := [][2]int{}
			for j := r.Intn(4); j > 0; j-- {
				sc = append(sc, [2]int{1, 0})
			}
			add(&c18In{Kind: "conn", IvUs: 1000 * (1 + r.Intn(3)), Ticks: 4 + r.Intn(12), Script: sc})
		}
		// the same with a real receive loop blocked in Read on the connection: the failed
		// keep-alive must close the connection so that the loss is reported
		for _, b := range bad {
			for _, k := range []int{1, 2 + r.Intn(6)} {
				sc := make([][2]int, 0, k)
				for j := 1; j < k; j++ {
					sc = append(sc, [2]int{1, 0})
				}
				add(&c18In{Kind: "conn", Recv: true, IvUs: 1000 * (1 + r.Intn(3)), Script: append(sc, b)})
			}
		}
	}
	// end to end through Client.Connect: the session ends in each way, at a random phase
	ne2e := 4
	if thorough {
		ne2e = 40
	}
	for i := 0; i < ne2e; i++ {
		for _, end := range []string{"drop", "srvclose", "disconnect"} {
			add(&c18In{Kind: "e2e", End: end, IvUs: 1000 * (2 + r.Intn(4)), Ticks: 6 + r.Intn(10), PhasePct: r.Intn(100)})
		}
	}
	// ... with a Disconnected handler that takes several intervals to return (as a StreamManager's does)
	for _, end := range []string{"drop", "srvclose", "disconnect"} {
		add(&c18In{Kind: "e2e", End: end, HBlock: 4 + r.Intn(5), IvUs: 1000 * (3 + r.Intn(4)), Ticks: 6 + r.Intn(8), PhasePct: r.Intn(100)})
	}
	// ... by a stream error from the server, with application callbacks that take several intervals
	// (XMPPTransport.Close then sits out ConnectTimeout, 1 s: few cases)
	nserr := 2
	if thorough {
		nserr = 8
	}
	for i := 0; i < nserr; i++ {
		add(&c18In{Kind: "e2e", End: "serr", IvUs: 1000 * (4 + r.Intn(5)), Ticks: 6 + r.Intn(8), PhasePct: r.Intn(100)})
	}
	// ... by Client.Disconnect with a server that is slow to answer the closing tag (Close waits ConnectTimeout, 1 s)
	for i := 0; i < nserr; i++ {
		add(&c18In{Kind: "e2e", End: "discslow", IvUs: 1000 * (4 + r.Intn(5)), Ticks: 6 + r.Intn(8), PhasePct: r.Intn(100)})
	}
	// ... over STARTTLS, certificate verified or not (the scripted server cannot push inside TLS: no srvclose)
	for i := 0; i < ne2e; i++ {
		for _, mode := range []string{"verify", "skip"} {
			add(&c18In{Kind: "e2e", TLS: mode, End: []string{"drop", "disconnect"}[i%2], IvUs: 1000 * (2 + r.Intn(4)), Ticks: 8 + r.Intn(10), PhasePct: r.Intn(100)})
		}
	}
	// reconnection on the same Client object: plain, after a stream error during which the keep-alive
	// fails (ConnectTimeout 1 s: about 2 s per case), with a PostResumeHook that fails once
	nre := 2
	if thorough {
		nre = 12
	}
	for i := 0; i < nre; i++ {
		add(&c18In{Kind: "re", Variant: "plain", IvUs: 1000 * (3 + r.Intn(4)), Ticks: 5 + r.Intn(6)})
		add(&c18In{Kind: "re", Variant: "lateping", IvUs: 1000 * (3 + r.Intn(4)), Ticks: 4 + r.Intn(4)})
		add(&c18In{Kind: "re", Variant: "latefail", IvUs: 1000 * (3 + r.Intn(4)), Ticks: 4 + r.Intn(4)})
		add(&c18In{Kind: "re", Variant: "connecthook", IvUs: 1000 * (3 + r.Intn(4)), Ticks: 4 + r.Intn(4)})
		add(&c18In{Kind: "re", Variant: "hookfail", IvUs: 1000 * (3 + r.Intn(4)), Ticks: 5 + r.Intn(6)})
	}
	for i := 0; i < (nre+5)/6; i++ {
		add(&c18In{Kind: "re", Variant: "staleclose", IvUs: 100000, Ticks: 2})
		add(&c18In{Kind: "re", Variant: "closewait", IvUs: 1000 * (5 + r.Intn(6)), Ticks: 4 + r.Intn(4)})
		add(&c18In{Kind: "re", Variant: "serrmgr", IvUs: 1000 * (5 + r.Intn(6)), Ticks: 5 + r.Intn(5)})
	}
	// histories of 2-4 sessions on the same Client object, every one of them observed (harness/c18hist.go)
	nhist := 3
	if thorough {
		nhist = 24
	}
	c18GenHist(add, r.Intn, nhist)
	// a negative KeepaliveInterval through NewClient / Connect
	add(&c18In{Kind: "e2e", End: "disconnect", IvUs: -1000})
	// WebSocket: the application ends the session while a keep-alive ping awaits its pong
	add(&c18In{Kind: "ws", End: "discping", IvUs: 20000})
	// WebSocket: the peer goes silent without closing (a relay stops forwarding): only the keep-alive can
	// notice, after the library's 5 s ping timeout
	add(&c18In{Kind: "ws", End: "silent", IvUs: 10000, Ticks: 8})
	if thorough {
		add(&c18In{Kind: "ws", End: "silent", IvUs: 50000, Ticks: 4})
	}
	// WebSocket transport: the TCP connection underneath is cut
	nws := 1
	if thorough {
		nws = 6
	}
	for i := 0; i < nws; i++ {
		add(&c18In{Kind: "ws", IvUs: 1000 * (3 + r.Intn(5)), Ticks: 3 + r.Intn(6)})
		add(&c18In{Kind: "ws", IvUs: 1000 * (3 + r.Intn(5)), Ticks: 3 + r.Intn(6), Fin: true})
	}
	return out
}

func (c18) Decode(raw json.RawMessage) (interface{}, error) {
	in := &c18In{}
	err := json.Unmarshal(raw, in)
	in.Obs = nil
	return in, err
}

// ---- recording ----

type kaEv struct {
	code int
	at   time.Time
	g    string // goroutine that made the call (one keep-alive loop = one goroutine)
}
type kaRec struct {
	mu       sync.Mutex
	evs      []kaEv
	panicMsg string
}

func (r *kaRec) add(code int) {
	now := time.Now()
	g := goid()
	r.mu.Lock()
	r.evs = append(r.evs, kaEv{code, now, g})
	r.mu.Unlock()
}
func (r *kaRec) snapshot() []kaEv {
	r.mu.Lock()
	defer r.mu.Unlock()
	return append([]kaEv{}, r.evs...)
}

// kaStub: the in-memory transport with an ordered log of Ping/Close calls.
type kaStub struct {
	*stubTransport
	rec    *kaRec
	failAt int
	mu     sync.Mutex
	n      int
}

func (t *kaStub) Ping() error {
	t.mu.Lock()
	t.n++
	n := t.n
	t.mu.Unlock()
	if t.failAt > 0 && n >= t.failAt {
		t.rec.add(kaPingFail)
		return errors.New("stub: ping failed")
	}
	t.rec.add(kaPingOk)
	return nil
}
func (t *kaStub) Close() error {
	t.rec.add(kaClose)
	return t.stubTransport.Close()
}

// kaReal: the real transport, with the same log around its Ping and Close.
type kaReal struct {
	xmpp.Transport
	rec      *kaRec
	slow     bool
	attr     bool        // e2e: tell the keep-alive loop's Close calls from everybody else's
	gate     *kaGate     // re: holds the loop at the entry of Ping / Close
	failPing int32       // re: set to 1 to make the next Ping fail
	fc       *kaFakeConn // conn kind: the scripted connection underneath
	mu       sync.Mutex
	pw       [][]string // conn kind: payloads of the conn.Write calls made by each Ping
	pg       [][2]int   // conn kind: [first, end) indices of those calls among all conn.Write calls
}

// kaGate holds the keep-alive goroutine at the ENTRY of transport.Ping / transport.Close: for the loop this
// is indistinguishable from being descheduled between two of its statements (after the poll of quit and
// before the ping; after the failed ping and before Close), which is where the runtime may stop it.
type kaGate struct {
	mu        sync.Mutex
	holdPing  chan struct{}
	holdClose chan struct{}
	pingIn    chan struct{}
	closeIn   chan struct{}
}

func newKaGate() *kaGate {
	return &kaGate{pingIn: make(chan struct{}, 8), closeIn: make(chan struct{}, 8)}
}
func (g *kaGate) arm(ping bool) chan struct{} {
	h := make(chan struct{})
	g.mu.Lock()
	if ping {
		g.holdPing = h
	} else {
		g.holdClose = h
	}
	g.mu.Unlock()
	return h
}
func (g *kaGate) pass(ping bool) {
	if g == nil {
		return
	}
	g.mu.Lock()
	h, in := g.holdClose, g.closeIn
	if ping {
		h, in = g.holdPing, g.pingIn
		g.holdPing = nil
	} else {
		g.holdClose = nil
	}
	g.mu.Unlock()
	if h != nil {
		select {
		case in <- struct{}{}:
		default:
		}
		<-h
	}
}

func (t *kaReal) Ping() error {
	if atomic.CompareAndSwapInt32(&t.failPing, 1, 0) {
		// fault injection at the Transport boundary: this keep-alive could not be written
		t.rec.add(kaPingFail)
		return errors.New("write tcp: no route to host (injected)")
	}
	t.gate.pass(true)
	before := 0
	if t.fc != nil {
		before = t.fc.nwrites()
	}
	err := t.Transport.Ping()
	if t.fc != nil {
		t.mu.Lock()
		t.pw = append(t.pw, t.fc.writesFrom(before))
		t.pg = append(t.pg, [2]int{before, t.fc.nwrites()})
		t.mu.Unlock()
	}
	if err != nil {
		t.rec.add(kaPingFail)
	} else {
		t.rec.add(kaPingOk)
	}
	return err
}
func (t *kaReal) Close() error {
	code := kaClose
	if t.attr {
		buf := make([]byte, 8192)
		if !strings.Contains(string(buf[:runtime.Stack(buf, false)]), "gosrc.io/xmpp.keepalive(") {
			code = kaCloseOther
		}
	}
	t.rec.add(code)
	if code == kaClose {
		t.gate.pass(false)
	}
	if !t.slow {
		// what the receive loop does when the server's </stream:stream> arrives;
		// spares XMPPTransport.Close its ConnectTimeout wait
		go t.Transport.ReceivedStreamClose()
	}
	return t.Transport.Close()
}

// kaStart runs the real loop in a goroutine; done is closed when it is over.
func kaStart(tr xmpp.Transport, rec *kaRec, iv time.Duration, quit chan struct{}) chan struct{} {
	done := make(chan struct{})
	go func() {
		defer close(done)
		defer func() {
			if r := recover(); r != nil {
				rec.mu.Lock()
				rec.panicMsg = fmt.Sprint(r)
				rec.mu.Unlock()
				rec.add(kaPanic)
			}
		}()
		xmpp.VerifKeepalive(tr, iv, quit)
		rec.add(kaReturn)
	}()
	return done
}

func kaWaitDone(done chan struct{}, d time.Duration) bool {
	select {
	case <-done:
		return true
	case <-time.After(d):
		return false
	}
}

func (in *c18In) nominal() int { return in.Ticks } // whole intervals before quit is closed

func c18Summarise(evs []kaEv, start time.Time, closeAt time.Time, closed bool, attempts int) *c18Obs {
	o := &c18Obs{Attempts: attempts, CloseUs: -1, ReturnUs: -1, PingUs: []int64{}}
	if closed {
		o.CloseUs = closeAt.Sub(start).Microseconds()
	}
	term := false
	for _, e := range evs {
		switch e.code {
		case kaPingOk, kaPingFail:
			o.PingUs = append(o.PingUs, e.at.Sub(start).Microseconds())
			if closed && e.at.After(closeAt) {
				o.LatePings++
			}
			if e.code == kaPingOk && !term {
				o.NSucc++
			} else {
				term = true
			}
		case kaCloseOther:
		case kaClose:
			if len(o.PingUs) > o.NSucc {
				o.CloseAfterFail = true
			}
			term = true
		case kaReturn:
			if o.ReturnUs < 0 {
				o.ReturnUs = e.at.Sub(start).Microseconds()
			}
			term = true
		default:
			term = true
		}
	}
	return o
}

func kaEvsSx(evs []kaEv) Sx {
	xs := make([]Sx, 0, len(evs))
	for _, e := range evs {
		if e.code != kaCloseOther {
			xs = append(xs, Zi(e.code))
		}
	}
	return LS(xs)
}

var kaNoReport = L(Z(0), Z(0))

func kaSettle(iv time.Duration) {
	d := 3 * iv
	if d < 3*time.Millisecond {
		d = 3 * time.Millisecond
	}
	time.Sleep(d)
}

func (c18) Run(inp interface{}) Sx {
	in := inp.(*c18In)
	var obs Sx
	for attempt := 1; ; attempt++ {
		var o *c18Obs
		if in.Kind == "tcprun" || in.Kind == "tcpfail" {
			obs, o = runKeepaliveTCP(in, attempt)
		} else if in.Kind == "conn" {
			obs, o = runKeepaliveConn(in, attempt)
		} else if in.Kind == "e2e" {
			obs, o = runKeepaliveE2E(in, attempt)
		} else if in.Kind == "re" {
			obs, o = runKeepaliveRe(in, attempt)
		} else if in.Kind == "e2e" && in.IvUs <= 0 {
			obs, o = runKeepaliveNegIv(in, attempt)
		} else if in.Kind == "ws" {
			obs, o = runKeepaliveWS(in, attempt)
		} else {
			obs, o = runKeepaliveStub(in, attempt)
		}
		in.Obs = o
		// the one wall-clock liveness bound is loose AND re-tried: a loaded machine may
		// starve the goroutine once, an implementation that does not ping fails every time
		if attempt >= 3 || !in.tooFewPings() {
			break
		}
		hist("retry-liveness")
	}
	return obs
}

// tooFewPings: fewer than a third of the nominal number of keep-alives.
func (in *c18In) tooFewPings() bool {
	switch in.Kind {
	case "run", "phase", "tcprun", "conn", "e2e", "ws":
		if in.IvUs <= 0 || in.End == "discping" {
			return false
		}
		// only over a window long enough for a loaded machine (several checks run in parallel): at least
		// 6 intervals and 30 ms; a window of a few milliseconds can legitimately pass without a tick being served
		long := in.nominal() >= 6 && int64(in.nominal())*int64(in.IvUs) >= 30000
		return in.Obs != nil && in.Obs.SetupErr == "" && long && in.Obs.NSucc < in.nominal()/3
	}
	return false
}

func runKeepaliveStub(in *c18In, attempt int) (Sx, *c18Obs) {
	iv := time.Duration(in.IvUs) * time.Microsecond
	rec := &kaRec{}
	tr := &kaStub{stubTransport: newStub(nil, nil), rec: rec}
	if in.Kind == "fail" {
		tr.failAt = in.FailAt
	}
	quit := make(chan struct{})
	closed := false
	var closeAt time.Time
	start := time.Now()
	if in.Kind == "quitfirst" {
		closed, closeAt = true, start
		close(quit)
	}
	done := kaStart(tr, rec, iv, quit)
	switch in.Kind {
	case "run", "phase":
		time.Sleep(time.Duration(in.Ticks)*iv + time.Duration(in.PhasePct)*iv/100)
		closed, closeAt = true, time.Now()
		close(quit)
		kaWaitDone(done, 5*time.Second)
	case "fail":
		kaWaitDone(done, 5*time.Second+40*time.Duration(in.FailAt)*iv)
	case "badiv":
		kaWaitDone(done, 300*time.Millisecond)
	default:
		kaWaitDone(done, 5*time.Second)
	}
	kaSettle(iv)
	evs := rec.snapshot()
	if !closed {
		close(quit) // let a loop that is still alive go away
	}
	o := c18Summarise(evs, start, closeAt, closed, attempt)
	if in.Kind == "badiv" {
		// outside the property's domain (the code panics in time.NewTicker; a default interval would do
		// as well): only "nothing is sent, nothing is closed" is observed and compared
		var keep []kaEv
		for _, e := range evs {
			if e.code == kaPingOk || e.code == kaPingFail || e.code == kaClose {
				keep = append(keep, e)
			}
		}
		evs = keep
	}
	return L(kaEvsSx(evs), L(), L(), kaNoReport), o
}

// ---- scripted TCP server: answers the stream header, then records every byte ----

type kaServer struct {
	ln       net.Listener
	mu       sync.Mutex
	got      []byte
	cutAfter int // -1: never
	fin      bool
	err      string
	over     chan struct{}
}

const kaServerHeader = "<?xml version='1.0'?><stream:stream id='x' xmlns='jabber:client' xmlns:stream='http://etherx.jabber.org/streams' version='1.0'>"

func newKaServer(cutAfter int, fin bool) (*kaServer, error) {
	ln, err := listenLoopback()
	if err != nil {
		return nil, err
	}
	s := &kaServer{ln: ln, cutAfter: cutAfter, fin: fin, over: make(chan struct{})}
	go s.serve()
	return s, nil
}

func (s *kaServer) fail(msg string) {
	s.mu.Lock()
	s.err = msg
	s.mu.Unlock()
}

func (s *kaServer) serve() {
	defer close(s.over)
	conn, err := s.ln.Accept()
	if err != nil {
		s.fail("accept: " + err.Error())
		return
	}
	defer conn.Close()
	// the client's stream header
	var hdr []byte
	buf := make([]byte, 4096)
	rest := []byte{}
	for {
		conn.SetReadDeadline(time.Now().Add(5 * time.Second))
		n, err := conn.Read(buf)
		hdr = append(hdr, buf[:n]...)
		if i := bytes.Index(hdr, []byte("<stream:stream")); i >= 0 {
			if j := bytes.IndexByte(hdr[i:], '>'); j >= 0 {
				rest = append(rest, hdr[i+j+1:]...)
				break
			}
		}
		if err != nil {
			s.fail("header: " + err.Error())
			return
		}
	}
	if _, err := conn.Write([]byte(kaServerHeader)); err != nil {
		s.fail("write header: " + err.Error())
		return
	}
	s.mu.Lock()
	s.got = append(s.got, rest...)
	s.mu.Unlock()
	conn.SetReadDeadline(time.Time{})
	for {
		s.mu.Lock()
		cut := s.cutAfter >= 0 && len(s.got) >= s.cutAfter
		s.mu.Unlock()
		if cut {
			if tc, ok := conn.(*net.TCPConn); ok && !s.fin {
				tc.SetLinger(0) // reset
			}
			return
		}
		n, err := conn.Read(buf)
		s.mu.Lock()
		s.got = append(s.got, buf[:n]...)
		s.mu.Unlock()
		if err != nil {
			return
		}
	}
}

func (s *kaServer) received() []byte {
	s.mu.Lock()
	defer s.mu.Unlock()
	return append([]byte{}, s.got...)
}

func runKeepaliveTCP(in *c18In, attempt int) (Sx, *c18Obs) {
	iv := time.Duration(in.IvUs) * time.Microsecond
	setupErr := func(msg string) (Sx, *c18Obs) {
		return L(L(Z(-2)), SBytes(msg), L(), kaNoReport), &c18Obs{Attempts: attempt, SetupErr: msg, CloseUs: -1, ReturnUs: -1}
	}
	cut := -1
	if in.Kind == "tcpfail" {
		cut = in.CutAfter
	}
	srv, err := newKaServer(cut, in.Fin)
	if err != nil {
		return setupErr("listen: " + err.Error())
	}
	defer srv.ln.Close()
	inner := xmpp.NewClientTransport(xmpp.TransportConfiguration{Address: srv.ln.Addr().String(), Domain: "localhost", ConnectTimeout: 1})
	if _, err := inner.Connect(); err != nil {
		return setupErr("connect: " + err.Error())
	}
	rec := &kaRec{}
	tr := &kaReal{Transport: inner, rec: rec, slow: in.Slow}
	quit := make(chan struct{})
	closed := false
	var closeAt time.Time
	start := time.Now()
	done := kaStart(tr, rec, iv, quit)
	if in.Kind == "tcprun" {
		time.Sleep(time.Duration(in.Ticks) * iv)
		closed, closeAt = true, time.Now()
		close(quit)
		kaWaitDone(done, 5*time.Second)
		// every successful Ping put one byte into a healthy connection: wait for them to
		// arrive (logical condition, bounded), then give stray writes three more intervals
		want := 0
		for _, e := range rec.snapshot() {
			if e.code == kaPingOk {
				want++
			}
		}
		for dl := time.Now().Add(5 * time.Second); len(srv.received()) < want && time.Now().Before(dl); {
			time.Sleep(time.Millisecond)
		}
		kaSettle(iv)
	} else {
		returned := kaWaitDone(done, 12*time.Second)
		select {
		case <-srv.over:
		case <-time.After(2 * time.Second):
		}
		kaSettle(iv)
		if !returned {
			// a loop that never noticed the dead connection: do not leave it (and the server) behind
			defer func() {
				go inner.ReceivedStreamClose()
				inner.Close()
			}()
		}
	}
	evs := rec.snapshot()
	got := srv.received() // before our own clean-up writes </stream:stream>
	o := c18Summarise(evs, start, closeAt, closed, attempt)
	o.Wire = string(got)
	var wsx Sx
	if in.Kind == "tcprun" {
		wsx, o.SrvN = kaWireSx(got, o.NSucc, true)
	} else {
		wsx, o.SrvN = kaWireSx(got, len(o.PingUs), false)
	}
	if !closed {
		close(quit)
	}
	if in.Kind == "tcprun" {
		go inner.ReceivedStreamClose()
		inner.Close()
	}
	return L(kaEvsSx(evs), wsx, L(), kaNoReport), o
}

// ---- scripted net.Conn under the real XMPPTransport ----

type kaFakeConn struct {
	mu        sync.Mutex
	script    [][2]int
	writes    []string
	log       []kaConnEv // every Write and Close, in order
	dead      bool       // a write has failed: every later write fails as well, in the same way
	deadErr   error
	closes    int
	blockRead bool // reads block until the connection is closed locally
	closedCh  chan struct{}
}
type kaConnEv struct {
	close bool
	data  string
}
type kaAddr struct{}

func (kaAddr) Network() string { return "fake" }
func (kaAddr) String() string  { return "fake" }

// kaNetErr: a net.Error of a chosen kind.
type kaNetErr struct {
	msg              string
	timeout, tempora bool
}

func (e kaNetErr) Error() string   { return e.msg }
func (e kaNetErr) Timeout() bool   { return e.timeout }
func (e kaNetErr) Temporary() bool { return e.tempora }

// kaWriteErr: the error KIND a scripted write fails with (second number of a script entry).
func kaWriteErr(kind int) error {
	switch kind {
	case 2: // an expired write deadline / ETIMEDOUT towards a peer that vanished: a net.Error with Timeout() true
		return &net.OpError{Op: "write", Net: "tcp", Err: kaNetErr{"i/o timeout", true, true}}
	case 3: // a net.Error that calls itself temporary
		return &net.OpError{Op: "write", Net: "tcp", Err: kaNetErr{"no buffer space available", false, true}}
	case 4:
		return io.EOF
	case 5:
		return os.ErrDeadlineExceeded
	case 6:
		return io.ErrShortWrite
	}
	return errors.New("fake conn: write failed")
}

func (c *kaFakeConn) Write(p []byte) (int, error) {
	c.mu.Lock()
	defer c.mu.Unlock()
	k := len(c.writes)
	c.writes = append(c.writes, string(p))
	c.log = append(c.log, kaConnEv{data: string(p)})
	if c.dead {
		return 0, c.deadErr // what ended the connection for writing goes on being the answer
	}
	if k < len(c.script) {
		var err error
		if c.script[k][1] != 0 {
			err = kaWriteErr(c.script[k][1])
			c.dead, c.deadErr = true, err
		}
		// scripted counts are written for a one-byte payload: 1 = everything, 0 = one byte short, ...
		return len(p) + c.script[k][0] - 1, err
	}
	return len(p), nil
}
func (c *kaFakeConn) Read(p []byte) (int, error) {
	if c.blockRead {
		<-c.closedCh
		return 0, errors.New("fake conn: use of closed connection")
	}
	return 0, errors.New("fake conn: nothing to read")
}
func (c *kaFakeConn) Close() error {
	c.mu.Lock()
	c.closes++
	c.log = append(c.log, kaConnEv{close: true})
	first := c.closes == 1
	c.mu.Unlock()
	if first {
		close(c.closedCh)
	}
	return nil
}
func (c *kaFakeConn) snapshot() ([]kaConnEv, int) {
	c.mu.Lock()
	defer c.mu.Unlock()
	return append([]kaConnEv{}, c.log...), c.closes
}

// kaConnLogSx: the calls on the connection as compared with the model. The writes one Ping
// made count as ONE whitespace keep-alive (0 1) when together they are a non-empty run of
// XML white space; anything else is shown byte for byte.
func kaConnLogSx(log []kaConnEv, groups [][2]int) Sx {
	var out []Sx
	w := 0 // index of the next Write call
	g := 0
	for i := 0; i < len(log); i++ {
		if log[i].close {
			out = append(out, L(Z(1)))
			continue
		}
		for g < len(groups) && groups[g][1] <= w {
			g++
		}
		if g < len(groups) && groups[g][0] == w && groups[g][1] > w {
			// the writes of one Ping: log entries i.. until groups[g][1] writes are consumed
			var all []byte
			j, cnt := i, 0
			for j < len(log) && cnt < groups[g][1]-groups[g][0] {
				if !log[j].close {
					all = append(all, log[j].data...)
					cnt++
				}
				j++
			}
			closeInside := false
			for _, e := range log[i:j] {
				closeInside = closeInside || e.close
			}
			if len(all) > 0 && kaAllWS(all) && !closeInside {
				out = append(out, L(Z(0), Z(1)))
				w += cnt
				i = j - 1
				continue
			}
		}
		out = append(out, L(Z(0), SBytes(log[i].data)))
		w++
	}
	return LS(out)
}
func (c *kaFakeConn) LocalAddr() net.Addr              { return kaAddr{} }
func (c *kaFakeConn) RemoteAddr() net.Addr             { return kaAddr{} }
func (c *kaFakeConn) SetDeadline(time.Time) error      { return nil }
func (c *kaFakeConn) SetReadDeadline(time.Time) error  { return nil }
func (c *kaFakeConn) SetWriteDeadline(time.Time) error { return nil }
func (c *kaFakeConn) nwrites() int                     { c.mu.Lock(); defer c.mu.Unlock(); return len(c.writes) }
func (c *kaFakeConn) writesFrom(i int) []string {
	c.mu.Lock()
	defer c.mu.Unlock()
	return append([]string{}, c.writes[i:]...)
}

// scriptFailAt: the first scripted write that does not put the keep-alive on the wire
// (error, or a byte count other than 1); 0 if none.
func (in *c18In) scriptFailAt() int {
	for i, w := range in.Script {
		if w[1] != 0 || w[0] != 1 {
			return i + 1
		}
	}
	return 0
}

func runKeepaliveConn(in *c18In, attempt int) (Sx, *c18Obs) {
	iv := time.Duration(in.IvUs) * time.Microsecond
	fc := &kaFakeConn{script: in.Script, blockRead: in.Recv, closedCh: make(chan struct{})}
	rec := &kaRec{}
	// the transport as XMPPTransport.Connect wires it, already connected over fc;
	// ConnectTimeout 0: Close does not wait for the server's closing tag
	tr := &kaReal{Transport: xmpp.VerifXMPPTransportLoggedOnConn(fc, nil, 0), rec: rec, slow: true, fc: fc}
	quit := make(chan struct{})
	var mu sync.Mutex
	errCalls, discEvents := 0, 0
	recvDone := make(chan struct{})
	if in.Recv {
		// the tail of Client.Connect: a receive loop on the same transport, owning quit
		cfg := &xmpp.Config{TransportConfiguration: xmpp.TransportConfiguration{Address: "127.0.0.1:1"}, Jid: "u@localhost", Credential: xmpp.Password("p"), Insecure: true}
		client, err := xmpp.NewClient(cfg, xmpp.NewRouter(), func(error) { mu.Lock(); errCalls++; mu.Unlock() })
		if err != nil {
			return L(L(Z(-2)), SBytes("newclient"), L(), kaNoReport), &c18Obs{Attempts: attempt, SetupErr: err.Error(), CloseUs: -1, ReturnUs: -1}
		}
		client.SetHandler(func(e xmpp.Event) error {
			if xmpp.VerifEventState(e) == xmpp.StateDisconnected {
				mu.Lock()
				discEvents++
				mu.Unlock()
			}
			return nil
		})
		xmpp.VerifSetTransport(client, tr)
		xmpp.VerifSetSession(client, xmpp.SMState{})
		go func() {
			defer close(recvDone)
			xmpp.VerifRecv(client, quit)
		}()
	} else {
		close(recvDone)
	}
	closed := false
	var closeAt time.Time
	start := time.Now()
	done := kaStart(tr, rec, iv, quit)
	if in.scriptFailAt() == 0 {
		time.Sleep(time.Duration(in.Ticks) * iv)
		closed, closeAt = true, time.Now()
		close(quit)
		kaWaitDone(done, 5*time.Second)
	} else {
		kaWaitDone(done, 5*time.Second+40*time.Duration(len(in.Script))*iv)
		// the receive loop's blocked Read fails once the connection is closed: bounded wait
		kaWaitDone(recvDone, 2*time.Second)
	}
	kaSettle(iv)
	evs := rec.snapshot()
	clog, closes := fc.snapshot()
	mu.Lock()
	o := c18Summarise(evs, start, closeAt, closed, attempt)
	o.ConnCloses, o.ErrCalls, o.DiscEvents = closes, errCalls, discEvents
	mu.Unlock()
	if in.Recv {
		fc.Close() // releases a receive loop that is still blocked; it closes quit itself
	} else if !closed {
		close(quit)
	}
	tr.mu.Lock()
	for _, ws := range tr.pw {
		o.PingWrites = append(o.PingWrites, append([]string{}, ws...))
	}
	groups := append([][2]int{}, tr.pg...)
	tr.mu.Unlock()
	return L(kaEvsSx(evs), L(), kaConnLogSx(clog, groups), L(Zi(o.ErrCalls), Zi(o.DiscEvents))), o
}

// ---- end to end: a real Client.Connect session against the scripted XMPP server ----

func kaKeepaliveBytes(clear []byte) (wire []byte, ok bool) {
	i := bytes.Index(clear, []byte("<presence"))
	if i < 0 {
		return nil, false
	}
	j := bytes.IndexByte(clear[i:], '>')
	if j < 0 {
		return nil, false
	}
	tail := clear[i+j+1:]
	return bytes.ReplaceAll(tail, []byte("</stream:stream>"), nil), true
}

func runKeepaliveE2E(in *c18In, attempt int) (Sx, *c18Obs) {
	iv := time.Duration(in.IvUs) * time.Microsecond
	setupErr := func(msg string) (Sx, *c18Obs) {
		return L(L(Z(-2)), SBytes(msg), L(), kaNoReport), &c18Obs{Attempts: attempt, SetupErr: msg, CloseUs: -1, ReturnUs: -1}
	}
	groups := [][]sItem{
		{hdrItem(), {T: "features", Mechs: []string{"PLAIN"}}},
		{{T: "success"}},
		{hdrItem(), {T: "features", Bind: true}},
		{{T: "iq", Typ: "result", ID: "b", Pl: "bind", Jid: "user@" + srvDomain + "/r"}},
	}
	if in.TLS != "" {
		initCerts()
		groups = append([][]sItem{{hdrItem(), {T: "features", TLS: 2, Mechs: []string{"PLAIN"}}}, {{T: "proceed"}}}, groups...)
	}
	// the keep-alive bytes in the XML stream as the server reads it (inside TLS when there is TLS)
	stream := func(lg connLog) []byte {
		if in.TLS != "" {
			return lg.SecureBy
		}
		return lg.ClearBy
	}
	srv, err := startScriptedServer([]connScript{{Groups: groups, Cert: "valid"}})
	if err != nil {
		return setupErr("listen: " + err.Error())
	}
	defer srv.stop()
	addr := srv.addr()
	var relay *kaRelay
	if in.End == "discslow" {
		// a path on which the server's answers can be withheld while everything the client writes is recorded
		if relay, err = newKaRelay(addr); err != nil {
			return setupErr("relay: " + err.Error())
		}
		defer relay.close()
		addr = relay.ln.Addr().String()
	}
	cfg := &xmpp.Config{
		TransportConfiguration: xmpp.TransportConfiguration{Address: addr, Domain: srvDomain, ConnectTimeout: 1},
		Jid:                    "user@" + srvDomain, Credential: xmpp.Password("secret"), Insecure: true,
		ConnectTimeout: 1, KeepaliveInterval: iv,
	}
	switch in.TLS {
	case "verify":
		cfg.Insecure, cfg.TLSConfig = false, &tls.Config{RootCAs: caPool}
	case "skip":
		cfg.Insecure, cfg.TLSConfig = false, &tls.Config{InsecureSkipVerify: true}
	}
	var mu sync.Mutex
	errCalls, discEvents := 0, 0
	discCh := make(chan struct{}, 8)
	// End "serr": the application's callbacks take their time (they run synchronously in the receive loop)
	var serrAt time.Time
	serrSrv := 0
	var srvRef *scriptedServer
	client, err := xmpp.NewClient(cfg, xmpp.NewRouter(), func(error) {
		mu.Lock()
		errCalls++
		first := errCalls == 1
		mu.Unlock()
		if in.End == "serr" && first {
			time.Sleep(2 * iv)
		}
	})
	if err != nil {
		return setupErr("newclient: " + err.Error())
	}
	client.SetHandler(func(e xmpp.Event) error {
		if xmpp.VerifEventState(e) == xmpp.StateStreamError && in.End == "serr" {
			mu.Lock()
			first := serrAt.IsZero()
			if first {
				serrAt = time.Now() // the stream error has been received: the session is over
			}
			mu.Unlock()
			if first {
				time.Sleep(iv / 2) // a ping already under way may still complete
				if logs := srvRef.snapshot(); len(logs) > 0 {
					w, _ := kaKeepaliveBytes(logs[0].ClearBy)
					mu.Lock()
					serrSrv = len(w)
					mu.Unlock()
				}
				time.Sleep(6 * iv) // ... and the handler is in no hurry
			}
		}
		if xmpp.VerifEventState(e) == xmpp.StateDisconnected {
			mu.Lock()
			discEvents++
			first := discEvents == 1 && in.HBlock > 0
			if first {
				serrAt = time.Now() // the loss is being reported: the session is over, quit was closed before
			}
			mu.Unlock()
			select {
			case discCh <- struct{}{}:
			default:
			}
			if first {
				// the application's handler takes its time (a StreamManager's returns when the reconnection is through)
				time.Sleep(iv / 2) // a ping already under way may still complete
				if logs := srvRef.snapshot(); len(logs) > 0 {
					w, _ := kaKeepaliveBytes(logs[0].ClearBy)
					mu.Lock()
					serrSrv = len(w)
					mu.Unlock()
				}
				time.Sleep(time.Duration(in.HBlock) * iv)
			}
		}
		return nil
	})
	srvRef = srv
	rec := &kaRec{}
	tr := &kaReal{Transport: xmpp.VerifTransport(client), rec: rec, slow: true, attr: true}
	xmpp.VerifSetTransport(client, tr)
	start := time.Now() // before the ticker exists: the j-th ping cannot come before start + j intervals
	if err := client.Connect(); err != nil {
		o := &c18Obs{Attempts: attempt, SetupErr: "connect: " + err.Error(), CloseUs: -1, ReturnUs: -1, ConnectErr: true}
		return L(L(Z(-2)), SBytes("connect"), L(), kaNoReport), o
	}
	// the session is up
	time.Sleep(time.Duration(in.Ticks)*iv + time.Duration(in.PhasePct)*iv/100)
	// every keep-alive reported as written so far must be in the stream the server reads (bounded wait)
	midWant, midGot := 0, 0
	for _, e := range rec.snapshot() {
		if e.code == kaPingOk {
			midWant++
		}
	}
	for dl := time.Now().Add(2 * time.Second); ; time.Sleep(time.Millisecond) {
		if logs := srv.snapshot(); len(logs) > 0 {
			w, _ := kaKeepaliveBytes(stream(logs[0]))
			midGot = 0
			for _, b := range w {
				if kaIsWS(b) {
					midGot++
				}
			}
		}
		if midGot >= midWant || time.Now().After(dl) {
			break
		}
	}
	mu.Lock()
	lostWhileUp := discEvents > 0
	mu.Unlock()
	closeAt := time.Now()
	switch in.End {
	case "drop":
		srv.drop(0)
	case "srvclose":
		srv.push(0, "</stream:stream>")
	case "serr":
		srv.push(0, sItem{T: "serr", Cond: "system-shutdown"}.xml())
	case "discslow":
		// the application ends the session; the server is in no hurry to answer the closing tag: Close waits
		// (ConnectTimeout, 1 s); what the client writes meanwhile is recorded on the way
		atomic.StoreInt32(&relay.frozenS2C, 1)
		mu.Lock()
		serrAt = time.Now() // the session is over when Disconnect is called
		mu.Unlock()
		go client.Disconnect()
	default:
		go client.Disconnect()
	}
	// the session has ended when the client says so
	select {
	case <-discCh:
	case <-time.After(5*time.Second + 10*iv):
	}
	grace := 8 * iv
	if grace < 40*time.Millisecond {
		grace = 40 * time.Millisecond
	}
	time.Sleep(grace)
	hblock := in.HBlock > 0 && in.End != "serr" && in.End != "discslow"
	if in.End != "serr" && in.End != "discslow" && !hblock {
		rec.add(kaReturn) // from here on the keep-alive loop must be gone
	}
	atEnd := 0
	if logs := srv.snapshot(); len(logs) > 0 {
		w, _ := kaKeepaliveBytes(stream(logs[0]))
		atEnd = len(w)
	}
	window := 10 * iv
	if window < 30*time.Millisecond {
		window = 30 * time.Millisecond
	}
	time.Sleep(window)
	evs := rec.snapshot()
	var afterTag []byte
	if in.End == "discslow" {
		// the stream as the client wrote it: what follows its own closing tag?
		sent := relay.sent(0)
		if i := bytes.Index(sent, []byte("</stream:stream>")); i >= 0 {
			afterTag = sent[i+len("</stream:stream>"):]
		}
		mu.Lock()
		at := serrAt
		mu.Unlock()
		evs = kaInsertMarker(evs, at.Add(iv/2))
	}
	if in.End == "serr" || hblock {
		// the session was over when the stream error arrived / the loss was reported, long before the callbacks returned
		mu.Lock()
		at, n := serrAt, serrSrv
		mu.Unlock()
		if at.IsZero() {
			at = time.Now()
		} else {
			atEnd = n
		}
		evs = kaInsertMarker(evs, at.Add(iv/2))
	}
	var wire []byte
	rawBad := ""
	if in.End == "discslow" {
		wire, _ = kaKeepaliveBytes(relay.sent(0))
	} else if logs := srv.snapshot(); len(logs) > 0 {
		wire, _ = kaKeepaliveBytes(stream(logs[0]))
		if in.TLS != "" {
			rawBad = kaNotTLSRecords(logs[0].RawBy)
		}
	}
	mu.Lock()
	o := c18Summarise(evs, start, closeAt, true, attempt)
	o.ErrCalls, o.DiscEvents = errCalls, discEvents
	mu.Unlock()
	wsx, units := kaWireSx(wire, o.NSucc, true)
	if in.End != "srvclose" && in.End != "serr" && in.End != "discslow" {
		wsx, units = kaWireSx(wire, len(o.PingUs), false)
	}
	o.Wire = string(wire)
	o.SrvN, o.SrvAtEnd, o.SrvFinal = units, atEnd, len(wire)
	o.MidWant, o.MidGot, o.LostWhileUp, o.RawBad = midWant, midGot, lostWhileUp, rawBad
	o.AfterOwnCloseTag = string(afterTag)
	if in.End == "discslow" {
		o.SrvAtEnd = o.SrvFinal // the byte count is judged through AfterOwnCloseTag
	}
	if in.End == "srvclose" {
		go client.Disconnect() // the transport is still open: let it go (up to ConnectTimeout, in the background)
	}
	return L(kaEvsSx(evs), wsx, L(), L(Zi(o.ErrCalls), Zi(o.DiscEvents))), o
}

// kaInsertMarker puts the "session over" marker into the log at its place in time.
func kaInsertMarker(evs []kaEv, at time.Time) []kaEv {
	out := make([]kaEv, 0, len(evs)+1)
	done := false
	for _, e := range evs {
		if !done && e.at.After(at) {
			out = append(out, kaEv{code: kaReturn, at: at})
			done = true
		}
		out = append(out, e)
	}
	if !done {
		out = append(out, kaEv{code: kaReturn, at: at})
	}
	return out
}

// kaNotTLSRecords: "" if b is a sequence of TLS records (the last one possibly incomplete),
// else a description of the first thing that is not.
func kaNotTLSRecords(b []byte) string {
	off := 0
	for len(b)-off >= 5 {
		typ, maj, n := b[off], b[off+1], int(b[off+3])<<8|int(b[off+4])
		if typ < 20 || typ > 23 || maj != 3 || b[off+2] > 4 || n > 16384+2048 {
			end := off + 8
			if end > len(b) {
				end = len(b)
			}
			return fmt.Sprintf("offset %d: % x", off, b[off:end])
		}
		off += 5 + n
	}
	if off < len(b) && (b[off] < 20 || b[off] > 23) {
		return fmt.Sprintf("offset %d: % x", off, b[off:])
	}
	return ""
}

// ---- WebSocket transport end to end: the TCP connection underneath is cut ----

type kaKeepListener struct {
	net.Listener
	mu    sync.Mutex
	conns []net.Conn
}

func (l *kaKeepListener) Accept() (net.Conn, error) {
	c, err := l.Listener.Accept()
	if err == nil {
		l.mu.Lock()
		l.conns = append(l.conns, c)
		l.mu.Unlock()
	}
	return c, err
}
func (l *kaKeepListener) cut(fin bool) {
	l.mu.Lock()
	defer l.mu.Unlock()
	for _, c := range l.conns {
		if tc, ok := c.(*net.TCPConn); ok && !fin {
			tc.SetLinger(0)
		}
		c.Close()
	}
}

// kaRelay: a TCP path between client and server that can go SILENT: both connections stay open, nothing
// is forwarded any more (a black-holed route, a peer that froze): reads just block, no error on either side.
type kaRelay struct {
	ln        net.Listener
	frozenS2C int32    // only the server's answers are withheld
	c2s       [][]byte // what each accepted connection sent towards the server, recorded here
	frozen    int32
	mu        sync.Mutex
	conns     []net.Conn
	stop      chan struct{}
}

func newKaRelay(target string) (*kaRelay, error) {
	ln, err := listenLoopback()
	if err != nil {
		return nil, err
	}
	r := &kaRelay{ln: ln, stop: make(chan struct{})}
	go func() {
		for {
			c, err := ln.Accept()
			if err != nil {
				return
			}
			s, err := net.Dial("tcp", target)
			if err != nil {
				c.Close()
				continue
			}
			r.mu.Lock()
			r.conns = append(r.conns, c, s)
			idx := len(r.c2s)
			r.c2s = append(r.c2s, nil)
			r.mu.Unlock()
			go r.pipe(c, s, idx)
			go r.pipe(s, c, -1)
		}
	}()
	return r, nil
}
func (r *kaRelay) pipe(src, dst net.Conn, c2s int) {
	buf := make([]byte, 32768)
	for {
		n, err := src.Read(buf)
		if c2s >= 0 && n > 0 {
			r.mu.Lock()
			r.c2s[c2s] = append(r.c2s[c2s], buf[:n]...)
			r.mu.Unlock()
		}
		if atomic.LoadInt32(&r.frozen) == 1 || (c2s < 0 && atomic.LoadInt32(&r.frozenS2C) == 1) {
			<-r.stop
			return
		}
		if n > 0 {
			dst.Write(buf[:n])
		}
		if err != nil {
			dst.Close()
			return
		}
	}
}
func (r *kaRelay) freeze()   { atomic.StoreInt32(&r.frozen, 1) }
func (r *kaRelay) unfreeze() { atomic.StoreInt32(&r.frozen, 0) }
func (r *kaRelay) sent(i int) []byte {
	r.mu.Lock()
	defer r.mu.Unlock()
	if i >= len(r.c2s) {
		return nil
	}
	return append([]byte{}, r.c2s[i]...)
}

// cutClients resets every connection accepted so far on the client's side.
func (r *kaRelay) cutClients() {
	r.mu.Lock()
	defer r.mu.Unlock()
	for i := 0; i < len(r.conns); i += 2 {
		if tc, ok := r.conns[i].(*net.TCPConn); ok {
			tc.SetLinger(0)
		}
		r.conns[i].Close()
	}
}
func (r *kaRelay) close() {
	close(r.stop)
	r.ln.Close()
	r.mu.Lock()
	for _, c := range r.conns {
		c.Close()
	}
	r.mu.Unlock()
}

func runKeepaliveWS(in *c18In, attempt int) (Sx, *c18Obs) {
	iv := time.Duration(in.IvUs) * time.Microsecond
	setupErr := func(msg string) (Sx, *c18Obs) {
		return L(L(Z(-2)), SBytes(msg), L(), kaNoReport), &c18Obs{Attempts: attempt, SetupErr: msg, CloseUs: -1, ReturnUs: -1}
	}
	base, err := listenLoopback()
	if err != nil {
		return setupErr("listen: " + err.Error())
	}
	ln := &kaKeepListener{Listener: base}
	ctx, cancel := context.WithCancel(context.Background())
	defer cancel()
	unmute := make(chan struct{})
	if in.End != "discping" {
		close(unmute)
	}
	hs := &http.Server{Handler: http.HandlerFunc(func(w http.ResponseWriter, r *http.Request) {
		c, err := websocket.Accept(w, r, &websocket.AcceptOptions{Subprotocols: []string{"xmpp"}})
		if err != nil {
			return
		}
		c.SetReadLimit(1 << 20)
		if c.Write(ctx, websocket.MessageText, []byte(`<open xmlns="urn:ietf:params:xml:ns:xmpp-framing" id="x" version="1.0"/>`)) != nil {
			return
		}
		if _, _, err := c.Read(ctx); err != nil { // the client's <open/>
			return
		}
		select { // a server that is slow to answer: pings stay in flight meanwhile
		case <-unmute:
		case <-ctx.Done():
			return
		}
		for { // reading is what answers the client's pings
			if _, _, err := c.Read(ctx); err != nil {
				return
			}
		}
	})}
	go hs.Serve(ln)
	defer hs.Close()

	addr := base.Addr().String()
	var relay *kaRelay
	if in.End == "silent" {
		if relay, err = newKaRelay(addr); err != nil {
			return setupErr("relay: " + err.Error())
		}
		defer relay.close()
		addr = relay.ln.Addr().String()
	}
	inner := xmpp.NewClientTransport(xmpp.TransportConfiguration{Address: "ws://" + addr + "/ws", Domain: "localhost", ConnectTimeout: 2})
	if _, err := inner.Connect(); err != nil {
		return setupErr("ws connect: " + err.Error())
	}
	rec := &kaRec{}
	tr := &kaReal{Transport: inner, rec: rec, slow: true, attr: true}
	var mu sync.Mutex
	errCalls, discEvents := 0, 0
	var discAt time.Time
	cfg := &xmpp.Config{TransportConfiguration: xmpp.TransportConfiguration{Address: "localhost:1"}, Jid: "u@localhost", Credential: xmpp.Password("p"), Insecure: true}
	client, err := xmpp.NewClient(cfg, xmpp.NewRouter(), func(error) { mu.Lock(); errCalls++; mu.Unlock() })
	if err != nil {
		return setupErr("newclient: " + err.Error())
	}
	client.SetHandler(func(e xmpp.Event) error {
		if xmpp.VerifEventState(e) == xmpp.StateDisconnected {
			mu.Lock()
			discEvents++
			if discEvents == 1 {
				discAt = time.Now()
			}
			mu.Unlock()
		}
		return nil
	})
	xmpp.VerifSetTransport(client, tr)
	xmpp.VerifSetSession(client, xmpp.SMState{})
	// the tail of Client.Connect
	quit := make(chan struct{})
	recvDone := make(chan struct{})
	start := time.Now()
	done := kaStart(tr, rec, iv, quit)
	go func() {
		defer close(recvDone)
		xmpp.VerifRecv(client, quit)
	}()
	if in.End == "discping" {
		// the session is ended by the application while the first keep-alive ping awaits its pong
		time.Sleep(iv + iv/2)
	} else {
		time.Sleep(time.Duration(in.Ticks) * iv)
	}
	mu.Lock()
	lostWhileUp := discEvents > 0
	mu.Unlock()
	cutAt := time.Now()
	if in.End == "discping" {
		go client.Disconnect()
		time.AfterFunc(150*time.Millisecond, func() { close(unmute) })
	} else if in.End == "silent" {
		// the peer goes silent without closing: only the keep-alive can notice (no pong within the
		// library's 5 s pingTimeout)
		relay.freeze()
	} else {
		ln.cut(in.Fin)
	}
	// pingTimeout in the library is 5 s; a cut connection is noticed much faster
	kaWaitDone(done, 9*time.Second)
	kaWaitDone(recvDone, 2*time.Second)
	kaSettle(iv)
	evs := rec.snapshot()
	mu.Lock()
	o := c18Summarise(evs, start, cutAt, false, attempt)
	o.ErrCalls, o.DiscEvents, o.LostWhileUp = errCalls, discEvents, lostWhileUp
	if discEvents > 0 {
		o.DetectUs = discAt.Sub(cutAt).Microseconds()
	}
	mu.Unlock()
	rec.mu.Lock()
	o.PanicMsg = rec.panicMsg
	rec.mu.Unlock()
	return L(kaEvsSx(evs), L(), L(), L(Zi(o.ErrCalls), Zi(o.DiscEvents))), o
}

// ---- model input ----

func (in *c18In) tcp() bool { return in.Kind == "tcprun" || in.Kind == "tcpfail" }

func (c18) Input(inp interface{}) Sx {
	in := inp.(*c18In)
	o := in.Obs
	if o == nil {
		o = &c18Obs{}
	}
	if in.Kind == "re" {
		return reInputSx(in, o)
	}
	term, failAt := 0, 0
	switch in.Kind {
	case "fail":
		term, failAt = 1, in.FailAt
	case "tcpfail":
		term, failAt = 1, o.NSucc+1 // which write the kernel refuses is the fault oracle's choice: observed
	case "conn":
		if in.scriptFailAt() > 0 {
			term = 1 // the model finds the failing write in the script by itself
		}
	}
	mode, lossy, end := 0, false, 0
	if in.tcp() {
		mode, lossy = 1, in.Kind == "tcpfail"
	} else if in.Kind == "conn" {
		mode = 2
		if in.Recv {
			end = 1
		}
	} else if in.Kind == "ws" {
		// a receive loop blocked on the transport; whether a Ping failed before the loop saw quit closed
		// (the read path may notice a cut first), and which one, is observed
		end = 1
		if len(o.PingUs) > o.NSucc {
			term, failAt = 1, o.NSucc+1
		}
	} else if in.Kind == "e2e" {
		// the server stops reading when it resets the connection or has answered the client's closing tag
		mode, lossy, end = 1, in.End != "srvclose", 2
		if in.End == "drop" {
			end = 1
		}
		if in.End == "serr" {
			// the server goes on reading after its stream error: every keep-alive written arrives
			lossy, end = false, 3
		}
		if in.End == "discslow" {
			// everything the client wrote is recorded on the way; Close gives up waiting and closes the connection
			lossy, end = false, 1
		}
		if len(o.PingUs) > o.NSucc {
			term, failAt = 1, o.NSucc+1 // a keep-alive hit the dying connection before quit was seen: observed
		}
	}
	script := make([]Sx, len(in.Script))
	for i, w := range in.Script {
		script[i] = L(Zi(w[0]), Zi(w[1]))
	}
	suf := make([]Sx, len(in.Suffix))
	for i, s := range in.Suffix {
		suf[i] = Zi(s & 1)
	}
	// a failed ping not answered by Close: the session ended while it was under way. Only where the end of the
	// session races with the ping (a real receive loop closes quit) is this taken from the observation; where
	// the harness owns quit, or nobody but the keep-alive can notice, the model insists on the Close.
	lateFlag := 0
	racy := in.Kind == "e2e" || in.Kind == "ws" // ws: the library under the transport closes the connection itself when a ping fails, the reader notices
	if racy && term == 1 && !o.CloseAfterFail {
		lateFlag = 1
	}
	return L(Zi(in.IvUs), Zi(term), Zi(failAt), Zi(o.NSucc), LS(suf), Zi(mode), B(lossy), Zi(o.SrvN), LS(script), Zi(end), B(in.Kind == "e2e"), Zi(lateFlag))
}

// ---- direct oracle: the property's own clauses on the observed log ----

func (c18) Oracle(inp interface{}, obs Sx) (string, string) {
	in := inp.(*c18In)
	o := in.Obs
	if in.Kind == "re" {
		return reOracle(in, obs)
	}
	if o == nil || len(obs.L) != 4 {
		return "no observation: " + obs.String(), "shape"
	}
	if o.SetupErr != "" {
		return "test set-up failed (not a statement about the code): " + o.SetupErr, "setup"
	}
	var codes []int
	for _, e := range obs.L[0].L {
		codes = append(codes, int(e.Z))
	}
	cnt := map[int]int{}
	firstRet, firstFail := -1, -1
	for i, c := range codes {
		cnt[c]++
		if c == kaReturn && firstRet < 0 {
			firstRet = i
		}
		if c == kaPingFail && firstFail < 0 {
			firstFail = i
		}
	}
	pings := cnt[kaPingOk] + cnt[kaPingFail]
	if in.Kind == "badiv" {
		// outside "all intervals" (HEAD panics in time.NewTicker): only "nothing sent, nothing closed" is required
		if pings != 0 || cnt[kaClose] != 0 {
			return "non-positive interval: keep-alive activity observed", "badiv-activity"
		}
		return "", ""
	}
	if cnt[kaPanic] > 0 {
		how := ""
		if in.End == "discping" {
			how = " (WebSocket session ended by Disconnect while a keep-alive ping awaited its pong; the failed ping is answered with a second Close)"
		}
		return "the keep-alive goroutine panicked: " + o.PanicMsg + how + " - in a Client this goroutine is the library's own and the panic ends the process", "keepalive-panic"
	}
	wire := []byte(o.Wire)
	// once the loop is over nothing follows
	if firstRet >= 0 && firstRet != len(codes)-1 {
		for _, c := range codes[firstRet+1:] {
			if c == kaPingOk || c == kaPingFail {
				if in.Kind == "e2e" && in.End == "discslow" {
					return fmt.Sprintf("the application called Disconnect, yet keep-alives went on while Close waited for the server's closing tag (log %v: 3 = Disconnect called + half an interval)", codes), "ping-after-session-end"
				}
				if in.Kind == "e2e" && in.HBlock > 0 && in.End != "serr" && in.End != "discslow" {
					return fmt.Sprintf("session ended by %s: keep-alives went on after the loss had been reported, while the application's Disconnected handler was still running (%d intervals); quit is to be closed BEFORE the loss is reported (log %v: 3 = Disconnected handler entered + half an interval)", in.End, in.HBlock, codes), "ping-after-session-end"
				}
				if in.Kind == "e2e" && in.End == "serr" {
					return fmt.Sprintf("session ended by the server's stream error, yet keep-alives went on while the application's handlers were running (log %v: 3 = stream error received + half an interval)", codes), "ping-after-session-end"
				}
				if in.Kind == "e2e" {
					return fmt.Sprintf("session ended by %s, Disconnected reported, yet keep-alives went on (log %v: 3 = session over + grace)", in.End, codes), "ping-after-session-end"
				}
				return fmt.Sprintf("keep-alive sent after the goroutine had returned (log %v)", codes), "ping-after-return"
			}
		}
		return fmt.Sprintf("transport used after the goroutine had returned (log %v)", codes), "action-after-return"
	}
	// a keep-alive that cannot be written: exactly one Close, right after it, then return; no ping after it
	if cnt[kaPingFail] > 1 {
		return fmt.Sprintf("%d failed pings: the loop went on after a failed keep-alive", cnt[kaPingFail]), "ping-after-failure"
	}
	if firstFail >= 0 {
		tail := codes[firstFail+1:]
		for _, c := range tail {
			if c == kaPingOk {
				return "keep-alive sent after a failed keep-alive", "ping-after-failure"
			}
		}
		racy := in.Kind == "e2e" || in.Kind == "ws" // ws: the library under the transport closes the connection itself when a ping fails, the reader notices
		okNoClose := racy && cnt[kaClose] == 0      // the session ended while that ping was under way: no Close needed
		if !okNoClose && (cnt[kaClose] != 1 || len(tail) < 1 || tail[0] != kaClose) {
			return fmt.Sprintf("failed keep-alive followed by %d Close calls (log %v)", cnt[kaClose], codes), "failure-close-count"
		}
		if firstRet < 0 {
			return "the goroutine did not return after a failed keep-alive", "failure-no-return"
		}
	} else if cnt[kaClose] != 0 {
		return "transport closed although no keep-alive failed", "close-without-failure"
	}
	// pings cannot come faster than the interval: the j-th not before j intervals after the start
	iv := int64(in.IvUs)
	for j, at := range o.PingUs {
		if at < int64(j+1)*iv-iv/10-50 {
			return fmt.Sprintf("ping %d came %d us after the start, interval %d us", j+1, at, iv), "faster-than-interval"
		}
	}
	switch in.Kind {
	case "ws":
		if o.LostWhileUp {
			return "WebSocket session reported lost while the connection was healthy", "session-lost-while-up"
		}
		if in.End == "discping" {
			if o.DiscEvents < 1 {
				return "WebSocket session ended by Disconnect: no Disconnected event", "loss-not-reported"
			}
			break
		}
		if in.End == "silent" && firstFail < 0 {
			return "the peer went silent (nothing forwarded, nothing closed) but no keep-alive failed within 9 s: nobody else can notice", "failure-not-reached"
		}
		// whichever path notices first (the reader of the transport or the failing keep-alive): the loss
		// is reported, once, and the keep-alive loop is over
		what := fmt.Sprintf("TCP connection under the WebSocket cut (fin=%v)", in.Fin)
		if in.End == "silent" {
			what = "peer silent, the keep-alive ping timed out and Close was called"
		}
		if o.ErrCalls < 1 || o.DiscEvents < 1 {
			return fmt.Sprintf("%s, but the loss is not reported: %d error callbacks, %d Disconnected events after 10 s", what, o.ErrCalls, o.DiscEvents), "loss-not-reported"
		}
		if o.ErrCalls != 1 || o.DiscEvents != 1 {
			return fmt.Sprintf("%s: the loss was reported %d/%d times (error callbacks/Disconnected events)", what, o.ErrCalls, o.DiscEvents), "loss-reported-twice"
		}
		if firstRet < 0 {
			return what + ": the keep-alive loop is still running", "quit-no-return"
		}
		if in.tooFewPings() {
			return fmt.Sprintf("%d keep-alives in %d intervals (3 attempts)", pings, in.nominal()), "too-few-pings"
		}
	case "e2e":
		if in.IvUs <= 0 {
			// outside the property's intervals; what must hold: the client works, nothing crashes
			if o.LostWhileUp || o.DiscEvents != 1 {
				return fmt.Sprintf("KeepaliveInterval %d us: session not usable (lost while up: %v, %d Disconnected events after Disconnect)", in.IvUs, o.LostWhileUp, o.DiscEvents), "nonpositive-interval-session"
			}
			break
		}
		if o.LostWhileUp {
			return fmt.Sprintf("session (tls=%q) torn down while it was up, after %d keep-alives (raw socket: %s)", in.TLS, pings, o.RawBad), "session-lost-while-up"
		}
		if o.MidGot < o.MidWant {
			return fmt.Sprintf("%d keep-alives reported written, only %d reached the XML stream the server reads (tls=%q)", o.MidWant, o.MidGot, in.TLS), "keepalive-not-in-stream"
		}
		if o.RawBad != "" {
			return "after STARTTLS the socket carried something that is not a TLS record: " + o.RawBad, "raw-bytes-under-tls"
		}
		if o.DiscEvents < 1 {
			return "session ended by " + in.End + " but no Disconnected event within 5 s", "loss-not-reported"
		}
		if in.End == "discslow" && len(strings.TrimSpace(o.AfterOwnCloseTag)) == 0 && len(o.AfterOwnCloseTag) > 1 {
			return fmt.Sprintf("the application called Disconnect; while Close waited for the server's closing tag the client wrote %d keep-alive bytes BEHIND its own </stream:stream> (one already under way is tolerated)", len(o.AfterOwnCloseTag)), "keepalive-after-own-stream-close"
		}
		if in.End == "discslow" && len(strings.TrimSpace(o.AfterOwnCloseTag)) != 0 {
			return fmt.Sprintf("behind its own </stream:stream> the client wrote %q", o.AfterOwnCloseTag), "data-after-own-stream-close"
		}
		if in.End == "serr" && o.SrvFinal != o.SrvAtEnd {
			return fmt.Sprintf("the server's stream error ended the session; while the application's stream-error handler and error callback were running (8 intervals) the server read %d more keep-alive bytes", o.SrvFinal-o.SrvAtEnd), "ping-after-session-end"
		}
		if in.End == "drop" && o.ErrCalls < 1 {
			return "connection reset by the server but the error callback never ran", "loss-not-reported"
		}
		if o.SrvFinal != o.SrvAtEnd {
			return fmt.Sprintf("session ended by %s: the server read %d more keep-alive bytes after the end", in.End, o.SrvFinal-o.SrvAtEnd), "ping-after-session-end"
		}
		if int64(pings) > o.ReturnUs/iv+1 {
			return fmt.Sprintf("%d keep-alives in %d us at interval %d us", pings, o.ReturnUs, iv), "too-many-pings"
		}
		if in.tooFewPings() {
			return fmt.Sprintf("session up for %d intervals, %d keep-alives (3 attempts)", in.nominal(), pings), "too-few-pings"
		}
		if !kaAllWS(wire) {
			return fmt.Sprintf("after the initial presence the server read %q: not white space", string(wire)), "ping-content"
		}
		if o.SrvN > pings || (in.End == "srvclose" && o.SrvN != cnt[kaPingOk]) {
			return fmt.Sprintf("%d successful pings, server read %d bytes of white space", cnt[kaPingOk], len(wire)), "wire-count"
		}
	case "run", "phase", "quitfirst", "tcprun":
		if cnt[kaPingFail] != 0 {
			return "a keep-alive failed on a healthy transport", "unexpected-failure"
		}
		if firstRet < 0 {
			return "the goroutine did not return after quit was closed", "quit-no-return"
		}
		// after quit: at most the pending tick and one ping per fire until the return
		if int64(o.LatePings) > 2+(o.ReturnUs-o.CloseUs)/iv {
			return fmt.Sprintf("%d keep-alives after quit was closed, loop returned %d us later (interval %d us)", o.LatePings, o.ReturnUs-o.CloseUs, iv), "pings-after-quit"
		}
		// at the interval: upper bound from the time the loop was alive, loose lower bound from the nominal time
		if int64(pings) > o.ReturnUs/iv+1 {
			return fmt.Sprintf("%d keep-alives in %d us at interval %d us", pings, o.ReturnUs, iv), "too-many-pings"
		}
		if in.tooFewPings() {
			return fmt.Sprintf("%d keep-alives in %d intervals (3 attempts)", pings, in.nominal()), "too-few-pings"
		}
	case "fail":
		if firstFail < 0 {
			return "the injected Ping failure was never reached", "failure-not-reached"
		}
		if cnt[kaPingOk] != in.FailAt-1 {
			return fmt.Sprintf("%d successful pings before the failing one, expected %d", cnt[kaPingOk], in.FailAt-1), "failure-position"
		}
	case "tcpfail":
		if firstFail < 0 {
			return "connection dropped by the server but no keep-alive ever failed", "failure-not-reached"
		}
	case "conn":
		// every Ping: a non-empty run of XML white space and nothing else
		for i, pw := range o.PingWrites {
			all := []byte(strings.Join(pw, ""))
			if len(all) == 0 || !kaAllWS(all) {
				return fmt.Sprintf("ping %d made the conn.Write calls %q: not a whitespace keep-alive", i+1, pw), "ping-content"
			}
		}
		if len(o.PingWrites) != pings {
			return "Ping calls and recorded write groups differ", "shape"
		}
		// the keep-alive is not on the wire if Write reported an error or a count other than 1
		if k := in.scriptFailAt(); k > 0 {
			if firstFail < 0 || cnt[kaPingOk] != k-1 {
				return fmt.Sprintf("conn.Write call %d returned (%d, err=%v): %d pings reported success, failure seen: %v", k, in.Script[k-1][0], in.Script[k-1][1] != 0, cnt[kaPingOk], firstFail >= 0), "unwritten-ping-not-detected"
			}
			// ... and then the connection must really be closed, so that a reader blocked on it notices
			if o.ConnCloses < 1 {
				return fmt.Sprintf("keep-alive %d could not be written (conn.Write returned (%d, err=%v)) but net.Conn.Close was never called: the dead connection stays open", k, in.Script[k-1][0], in.Script[k-1][1] != 0), "dead-connection-not-closed"
			}
			if in.Recv && (o.ErrCalls < 1 || o.DiscEvents < 1) {
				return fmt.Sprintf("keep-alive %d could not be written; receive loop blocked on the connection: %d error callbacks, %d Disconnected events", k, o.ErrCalls, o.DiscEvents), "loss-not-reported"
			}
		} else {
			if o.ConnCloses != 0 {
				return "connection closed although no keep-alive failed", "close-without-failure"
			}
			if cnt[kaPingFail] != 0 {
				return "a keep-alive failed on a healthy connection", "unexpected-failure"
			}
			if firstRet < 0 {
				return "the goroutine did not return after quit was closed", "quit-no-return"
			}
			if in.tooFewPings() {
				return fmt.Sprintf("%d keep-alives in %d intervals (3 attempts)", pings, in.nominal()), "too-few-pings"
			}
		}
	}
	if in.tcp() {
		if !kaAllWS(wire) {
			return fmt.Sprintf("keep-alive put %q on the wire: not white space", string(wire)), "ping-content"
		}
		if in.Kind == "tcprun" && o.SrvN != cnt[kaPingOk] {
			return fmt.Sprintf("%d successful pings, server read %d bytes", cnt[kaPingOk], len(wire)), "wire-count"
		}
		if in.Kind == "tcprun" && o.SrvN < 3 {
			return fmt.Sprintf("only %d keep-alives reached the server in %d intervals", o.SrvN, in.Ticks), "too-few-pings"
		}
		if in.Kind == "tcpfail" && o.SrvN > pings {
			return fmt.Sprintf("%d pings attempted, server read %d bytes", pings, len(wire)), "wire-count"
		}
	}
	return "", ""
}

func (c18) Key(inp interface{}) (string, bool) {
	in := inp.(*c18In)
	hist("kind:" + in.Kind)
	hist(fmt.Sprintf("interval_ms:%d", in.IvUs/1000))
	n := 0
	if in.Obs != nil {
		n = in.Obs.NSucc
		switch {
		case n == 0:
			hist("pings:0")
		case n == 1:
			hist("pings:1")
		case n < 5:
			hist("pings:2-4")
		case n < 20:
			hist("pings:5-19")
		default:
			hist("pings:20+")
		}
		if in.Obs.LatePings > 0 {
			hist("ping-chosen-after-quit-closed")
		}
	}
	if in.Kind == "e2e" {
		hist("e2e-end:" + in.End)
		hist("e2e-tls:" + in.TLS)
	}
	if in.Kind == "conn" && in.Recv {
		hist("conn-with-receive-loop")
	}
	k := fmt.Sprintf("%s iv%d t%d p%d k%d cut%d fin%v slow%v %v recv%v %s", in.Kind, in.IvUs, in.Ticks, in.PhasePct, in.FailAt, in.CutAfter, in.Fin, in.Slow, in.Script, in.Recv, in.End+in.TLS+in.Variant+in.histKey()+fmt.Sprintf("hb%d", in.HBlock))
	if in.Kind == "re" {
		hist("re:" + in.Variant)
		for i, st := range in.Hist {
			if i > 0 {
				hist("hist-later-session-end:" + st.End)
			}
		}
		return k, true
	}
	return k, n >= 2
}
