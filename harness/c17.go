package main

import (
	"encoding/json"
	"fmt"
	"math"
	"math/rand"
	"strings"
	"time"

	"gosrc.io/xmpp/stanza"
)

// C17: UnAckQueue vs Model/Queue.v
type qOp struct {
	Op string `json:"op"` // push pushshared pushpeek pushforeign pop popn peek peekn empty droplast
	S  string `json:"s,omitempty"`
	K  int    `json:"k,omitempty"`
}
type c17In struct {
	Nil bool  `json:"nil,omitempty"` // nil receiver
	Ops []qOp `json:"ops"`
}

type c17 struct{}

// a Queueable that is not an *UnAckedStz: Push refuses it
type c17Foreign struct{}

func (c17Foreign) QueueableName() string { return "foreign" }

// c17Deadline: a call on the queue that has not returned by then is blocked (a lock left held)
const c17Deadline = 5 * time.Second

func init() { register(c17{}) }

func (c17) ID() string    { return "C17" }
func (c17) RunFn() string { return "run_C17" }
func (c17) Workers() int  { return 8 }

// Journal: a call that ends the process (a fatal error the runtime does not let anyone recover, e.g. an allocation
// of terabytes for a count taken unclamped from the caller) is found through the crash journal and re-run alone.
func (c17) Journal() bool { return true }

// c17Huge: counts far beyond any queue length; peekn / popn must treat them like len+1 (everything is returned)
var c17Huge = []int{math.MaxInt, math.MaxInt - 1, 1 << 62, 1 << 32}

func (c17) Rule() string {
	return "random histories (0-60 ops) over push/pop/popn k/peek/peekn k/empty and DropLast (right after a push as Client.writeHeld calls it, twice in a row, after pops, on an empty queue), and pushes of a Queueable of another type (refused with an error, the queue unchanged - and usable: the calls that follow must return what the FIFO returns; every call has a deadline, one that does not return is reported), k in {-3..len+3} plus extreme values (a fixed family: peekn / popn with MaxInt, MaxInt-1, 2^62, 2^32 and len+1 on empty queues and on queues of 1, 3 and 8 entries, the queue used again afterwards; the same counts at random in the histories), a call that panics is recorded as what that step returned and reported with the history, payloads from a small pool; one push in three re-uses a caller-owned *UnAckedStz that is overwritten after the push, or re-queues the current head (q.Push(q.Peek())); distinct = distinct op-kind/k-class sequence; non-trivial = at least one pop or peek on a non-empty queue and at least 3 ops"
}

func (c17) Gen(r *rand.Rand, tier string) []interface{} {
	n := 1500
	if tier == "thorough" {
		n = 40000
	}
	var out []interface{}
	// fixed corner histories first
	out = append(out, c17In{Ops: []qOp{}},
		c17In{Ops: []qOp{{Op: "pop"}, {Op: "popn", K: 3}, {Op: "peek"}, {Op: "peekn", K: 2}, {Op: "empty"}}},
		c17In{Nil: true, Ops: []qOp{{Op: "push", S: "x"}, {Op: "pop"}, {Op: "popn", K: 1}, {Op: "peek"}, {Op: "peekn", K: 1}, {Op: "empty"}, {Op: "droplast"}}},
		// DropLast: the number of the entry taken back is used again; twice in a row; on an empty queue; after the queue was emptied by pops
		// a refused push leaves a usable queue behind
		c17In{Ops: []qOp{{Op: "pushforeign"}, {Op: "push", S: "a"}, {Op: "pushforeign"}, {Op: "droplast"}, {Op: "push", S: "b"}, {Op: "pushforeign"}, {Op: "pop"}, {Op: "peekn", K: 2}, {Op: "empty"}}},
		c17In{Nil: true, Ops: []qOp{{Op: "pushforeign"}, {Op: "push", S: "x"}, {Op: "empty"}}},
		c17In{Ops: []qOp{{Op: "droplast"}, {Op: "push", S: "a"}, {Op: "push", S: "b"}, {Op: "droplast"}, {Op: "push", S: "c"}, {Op: "droplast"}, {Op: "droplast"}, {Op: "droplast"}, {Op: "push", S: "d"}}},
		c17In{Ops: []qOp{{Op: "push", S: "a"}, {Op: "push", S: "b"}, {Op: "popn", K: 2}, {Op: "droplast"}, {Op: "push", S: "c"}, {Op: "pop"}, {Op: "push", S: "d"}, {Op: "droplast"}, {Op: "push", S: "e"}, {Op: "peekn", K: 5}}})
	// counts beyond the length, huge ones included, on empty and non-empty queues, for both calls; the queue is used again afterwards
	for _, op := range []string{"peekn", "popn"} {
		for _, size := range []int{0, 1, 3, 8} {
			for _, k := range append([]int{size + 1}, c17Huge...) {
				var ops []qOp
				for j := 0; j < size; j++ {
					ops = append(ops, qOp{Op: "push", S: fmt.Sprint("h", j)})
				}
				ops = append(ops, qOp{Op: op, K: k}, qOp{Op: "empty"}, qOp{Op: "peek"}, qOp{Op: "push", S: "after"}, qOp{Op: op, K: k}, qOp{Op: "pop"}, qOp{Op: op, K: k}, qOp{Op: "empty"})
				out = append(out, c17In{Ops: ops})
			}
		}
	}
	for _, k := range c17Huge {
		out = append(out, c17In{Nil: true, Ops: []qOp{{Op: "peekn", K: k}, {Op: "popn", K: k}}})
	}
	pool := []string{"", "a", "<iq id='1'/>", "<message>é</message>", "x\x00y", strings.Repeat("z", 70)}
	for i := 0; i < n; i++ {
		l := r.Intn(61)
		ops := make([]qOp, 0, l)
		size := 0
		pushBias := 2 + r.Intn(5)
		drops := r.Intn(3) // 0: a history without DropLast; 1: now and then; 2: often
		foreign := r.Intn(3) == 0
		for j := 0; j < l; j++ {
			var o qOp
			if foreign && r.Intn(15) == 0 {
				ops = append(ops, qOp{Op: "pushforeign"})
				continue
			}
			if drops > 0 && r.Intn(18/drops) == 0 {
				ops = append(ops, qOp{Op: "droplast"})
				if size > 0 {
					size--
				}
				continue
			}
			switch c := r.Intn(10); {
			case c < pushBias:
				switch k := r.Intn(6); {
				case k == 0:
					// the caller re-uses one *UnAckedStz variable for several pushes (and overwrites it afterwards)
					o = qOp{Op: "pushshared", S: pool[r.Intn(len(pool))] + fmt.Sprint(j)}
				case k == 1 && size > 0:
					o = qOp{Op: "pushpeek"} // q.Push(q.Peek()): the head is queued again
				default:
					o = qOp{Op: "push", S: pool[r.Intn(len(pool))] + fmt.Sprint(j)}
				}
				size++
			case c < pushBias+1:
				o = qOp{Op: "pop"}
				if size > 0 {
					size--
				}
			case c < pushBias+3:
				o = qOp{Op: "popn", K: genK(r, size)}
				if o.K > 0 {
					if o.K >= size {
						size = 0
					} else {
						size -= o.K
					}
				}
			case c < pushBias+4:
				o = qOp{Op: "peek"}
			case c < 9:
				o = qOp{Op: "peekn", K: genK(r, size)}
			default:
				o = qOp{Op: "empty"}
			}
			ops = append(ops, o)
		}
		out = append(out, c17In{Ops: ops})
	}
	return out
}

func genK(r *rand.Rand, size int) int {
	switch r.Intn(14) {
	case 12:
		return c17Huge[r.Intn(len(c17Huge))]
	case 13:
		return -c17Huge[r.Intn(len(c17Huge))] - r.Intn(2) // down to MinInt
	case 0:
		return -1 << 40
	case 1:
		return 1 << 40
	case 2:
		return 0
	case 3:
		return size
	default:
		return r.Intn(size+7) - 3
	}
}

func (c17) Decode(raw json.RawMessage) (interface{}, error) {
	var in c17In
	err := json.Unmarshal(raw, &in)
	return in, err
}

func entrySx(e *stanza.UnAckedStz) Sx { return L(Zi(e.Id), SBytes(e.Stz)) }

func queueablesSx(qs []stanza.Queueable) Sx {
	if len(qs) == 0 {
		if qs != nil {
			return L(Z(99)) // non-nil empty slice: not what the model calls "nothing"
		}
		return L()
	}
	var es []Sx
	for _, q := range qs {
		es = append(es, entrySx(q.(*stanza.UnAckedStz)))
	}
	return L(Z(2), LS(es))
}

func queueableSx(q stanza.Queueable) Sx {
	if q == nil {
		return L()
	}
	return L(Z(1), entrySx(q.(*stanza.UnAckedStz)))
}

// c17Call: one call on the queue and what it returned
func c17Call(q *stanza.UnAckQueue, shared *stanza.UnAckedStz, o qOp) Sx {
	var r Sx
	switch o.Op {
	case "pushshared":
		shared.Id, shared.Stz = 555, o.S
		if err := q.Push(shared); err != nil {
			r = L(Z(98))
		} else {
			r = L()
		}
		shared.Id, shared.Stz = -1, "OVERWRITTEN-AFTER-PUSH" // the queue must hold its own copy
	case "pushpeek":
		if h := q.Peek(); h == nil {
			r = queueableSx(q.Peek())
		} else if err := q.Push(h); err != nil {
			r = L(Z(98))
		} else {
			r = L()
		}
	case "push":
		err := q.Push(&stanza.UnAckedStz{Id: 777, Stz: o.S})
		if err != nil {
			r = L(Z(98))
		} else {
			r = L()
		}
	case "pushforeign":
		if err := q.Push(c17Foreign{}); err != nil {
			r = L(Z(98))
		} else {
			r = L()
		}
	case "pop":
		r = queueableSx(q.Pop())
	case "popn":
		r = queueablesSx(q.PopN(o.K))
	case "peek":
		r = queueableSx(q.Peek())
	case "peekn":
		r = queueablesSx(q.PeekN(o.K))
	case "empty":
		r = L(Z(3), B(q.Empty()))
	case "droplast":
		q.DropLast()
		r = L()
	}
	return r
}

func (c17) Run(inp interface{}) Sx {
	in := inp.(c17In)
	var q *stanza.UnAckQueue
	if !in.Nil {
		q = stanza.NewUnAckQueue()
	}
	var steps []Sx
	shared := &stanza.UnAckedStz{}
	for _, o := range in.Ops {
		o := o
		done := make(chan Sx, 1)
		go func() {
			// a call that panics: the panic is what this step returned
			defer func() {
				if p := recover(); p != nil {
					done <- L(Z(96), SBytes(fmt.Sprint(p)))
				}
			}()
			done <- c17Call(q, shared, o)
		}()
		var r Sx
		timer := time.NewTimer(c17Deadline)
		select {
		case r = <-done:
			timer.Stop()
		case <-timer.C:
			// the call does not return: reported, the rest of the history cannot run
			steps = append(steps, L(L(Z(97)), L()))
			return LS(steps)
		}
		if c17Panicked(r) {
			// the state the call left behind is not looked at (a lock may be held): the history ends here
			steps = append(steps, L(r, L()))
			return LS(steps)
		}
		var es []Sx
		if q != nil {
			for _, e := range q.Uslice {
				es = append(es, entrySx(e))
			}
		}
		steps = append(steps, L(r, LS(es)))
	}
	return LS(steps)
}

func c17Panicked(r Sx) bool {
	return len(r.L) == 2 && r.L[0].K != "l" && r.L[0].Z == 96 && r.L[1].K == "s"
}

// c17Normalise rewrites the aliasing variants into plain pushes of the payload they
// must queue (pushpeek: a copy of the current head), so that model and oracle see them
// as what they have to be.
func c17Normalise(ops []qOp) []qOp {
	out := make([]qOp, 0, len(ops))
	var ref []string
	take := func(k int) int {
		if k <= 0 {
			return 0
		}
		if k > len(ref) {
			return len(ref)
		}
		return k
	}
	for _, o := range ops {
		switch o.Op {
		case "pushshared":
			o = qOp{Op: "push", S: o.S}
		case "pushpeek":
			if len(ref) == 0 {
				o = qOp{Op: "peek"} // nothing to re-queue: Push(nil) is refused; harmless stand-in
			} else {
				o = qOp{Op: "push", S: ref[0]}
			}
		}
		switch o.Op {
		case "push":
			ref = append(ref, o.S)
		case "pop":
			ref = ref[take(1):]
		case "popn":
			ref = ref[take(o.K):]
		case "droplast":
			if len(ref) > 0 {
				ref = ref[:len(ref)-1]
			}
		}
		out = append(out, o)
	}
	return out
}

func (c17) Input(inp interface{}) Sx {
	in := inp.(c17In)
	in.Ops = c17Normalise(in.Ops)
	items := make([]Sx, len(in.Ops))
	for i, o := range in.Ops {
		switch o.Op {
		case "push":
			items[i] = L(Z(0), SBytes(o.S))
		case "pop":
			items[i] = L(Z(1))
		case "popn":
			items[i] = L(Z(2), Zi(o.K))
		case "peek":
			items[i] = L(Z(3))
		case "peekn":
			items[i] = L(Z(4), Zi(o.K))
		case "empty":
			items[i] = L(Z(5))
		case "droplast":
			items[i] = L(Z(6))
		case "pushforeign":
			items[i] = L(Z(7))
		}
	}
	return L(B(in.Nil), LS(items))
}

// Direct oracle: an independent reference FIFO over Go slices.
func (c17) Oracle(inp interface{}, obs Sx) (string, string) {
	in := inp.(c17In)
	in.Ops = c17Normalise(in.Ops)
	if n := len(obs.L); n > 0 && n <= len(in.Ops) && len(obs.L[n-1].L) == 2 && len(obs.L[n-1].L[0].L) == 1 && obs.L[n-1].L[0].L[0].Z == 97 {
		o := in.Ops[n-1]
		return fmt.Sprintf("step %d (%s k=%d): the call did not return within %v: the queue is blocked (a lock left held by an earlier call?)", n-1, o.Op, o.K, c17Deadline), "blocked-" + o.Op
	}
	if n := len(obs.L); n > 0 && n <= len(in.Ops) && len(obs.L[n-1].L) == 2 && c17Panicked(obs.L[n-1].L[0]) {
		o := in.Ops[n-1]
		return fmt.Sprintf("step %d (%s n=%d, nil receiver %v): the call panicked: %s", n-1, o.Op, o.K, in.Nil, string(bytesOf(obs.L[n-1].L[0].L[1]))), "panic-" + o.Op
	}
	if len(obs.L) != len(in.Ops) {
		return "step count differs", "shape"
	}
	type ent struct {
		id int64
		s  string
	}
	var ref []string
	popped := 0 // entries that left at the head: ref[j] is entry number popped+j+1 of the log of payloads pushed and not taken back
	entries := func(x Sx) []ent {
		var r []ent
		for _, e := range x.L {
			r = append(r, ent{e.L[0].Z, string(bytesOf(e.L[1]))})
		}
		return r
	}
	for i, o := range in.Ops {
		ret, after := obs.L[i].L[0], entries(obs.L[i].L[1])
		if in.Nil {
			wantEmpty := o.Op == "empty"
			if len(after) != 0 || (wantEmpty && (len(ret.L) != 2 || ret.L[1].Z != 1)) || (!wantEmpty && len(ret.L) != 0) {
				return fmt.Sprintf("step %d: nil receiver must return nothing", i), "nil-receiver"
			}
			continue
		}
		var want []string // expected returned payloads
		kind := 0         // 0 nothing, 1 one, 2 many, 3 bool, 4 refused
		take := func(k int) int {
			if k <= 0 {
				return 0
			}
			if k > len(ref) {
				return len(ref)
			}
			return k
		}
		before := append([]string{}, ref...)
		switch o.Op {
		case "pushforeign":
			kind = 4 // refused: an error, nothing queued
		case "push":
			ref = append(ref, o.S)
		case "pop":
			if len(ref) > 0 {
				want, kind, ref = ref[:1], 1, ref[1:]
				popped++
			}
		case "droplast":
			// the newest entry is taken back, with its number
			if len(ref) > 0 {
				ref = ref[:len(ref)-1]
			}
		case "peek":
			if len(ref) > 0 {
				want, kind = ref[:1], 1
			}
		case "popn":
			n := take(o.K)
			if n > 0 {
				want, kind, ref = ref[:n], 2, ref[n:]
				popped += n
			}
		case "peekn":
			n := take(o.K)
			if n > 0 {
				want, kind = ref[:n], 2
			}
		case "empty":
			kind = 3
		}
		// returned value
		switch kind {
		case 0:
			if len(ret.L) != 0 {
				return fmt.Sprintf("step %d (%s k=%d): expected nothing returned", i, o.Op, o.K), "ret-" + o.Op
			}
		case 1:
			if len(ret.L) != 2 || ret.L[0].Z != 1 || string(bytesOf(ret.L[1].L[1])) != want[0] {
				return fmt.Sprintf("step %d (%s): wrong head returned", i, o.Op), "ret-" + o.Op
			}
		case 2:
			if len(ret.L) != 2 || ret.L[0].Z != 2 {
				return fmt.Sprintf("step %d (%s k=%d): expected %d entries", i, o.Op, o.K, len(want)), "ret-" + o.Op
			}
			got := entries(ret.L[1])
			if len(got) != len(want) {
				return fmt.Sprintf("step %d (%s k=%d): expected %d entries, got %d", i, o.Op, o.K, len(want), len(got)), "ret-" + o.Op
			}
			for j := range got {
				if got[j].s != want[j] {
					return fmt.Sprintf("step %d (%s k=%d): entry %d differs from the reference FIFO", i, o.Op, o.K, j), "ret-" + o.Op
				}
			}
		case 4:
			if len(ret.L) != 1 || ret.L[0].Z != 98 {
				return fmt.Sprintf("step %d: Push of an element that is not an *UnAckedStz must be refused with an error", i), "ret-pushforeign"
			}
		case 3:
			if len(ret.L) != 2 || ret.L[0].Z != 3 || (ret.L[1].Z == 1) != (len(ref) == 0) {
				return fmt.Sprintf("step %d: Empty() wrong", i), "ret-empty"
			}
		}
		// contents and ids
		if len(after) != len(ref) {
			return fmt.Sprintf("step %d (%s k=%d): queue holds %d entries, reference FIFO %d", i, o.Op, o.K, len(after), len(ref)), "contents-" + o.Op
		}
		for j := range after {
			if after[j].s != ref[j] {
				return fmt.Sprintf("step %d (%s): contents differ from the reference FIFO at %d", i, o.Op, j), "contents-" + o.Op
			}
			if j > 0 && after[j].id <= after[j-1].id {
				return fmt.Sprintf("step %d (%s): ids not strictly increasing", i, o.Op), "ids-" + o.Op
			}
			if after[j].id != int64(popped+j+1) {
				return fmt.Sprintf("step %d (%s): entry %d carries sequence number %d; it is number %d among the payloads pushed and not taken back", i, o.Op, j, after[j].id, popped+j+1), "ids-position-" + o.Op
			}
		}
		if (o.Op == "peek" || o.Op == "peekn" || o.Op == "empty" || o.Op == "pushforeign") && len(before) != len(after) {
			return fmt.Sprintf("step %d: %s modified the queue", i, o.Op), "peek-modifies"
		}
	}
	return "", ""
}

func (c17) Key(inp interface{}) (string, bool) {
	in := inp.(c17In)
	for _, o := range in.Ops {
		if o.Op == "pushshared" || o.Op == "pushpeek" {
			hist("op:" + o.Op)
		}
	}
	in.Ops = c17Normalise(in.Ops)
	var b strings.Builder
	size, hit := 0, false
	for _, o := range in.Ops {
		cls := ""
		switch o.Op {
		case "push":
			size++
		case "pop":
			if size > 0 {
				hit = true
				size--
			}
		case "peek":
			if size > 0 {
				hit = true
			}
		case "droplast":
			if size > 0 {
				size--
				cls = "+"
			}
		case "popn", "peekn":
			switch {
			case o.K < 0:
				cls = "-"
			case o.K == 0:
				cls = "0"
			case o.K < size:
				cls = "<"
				hit = true
			case o.K == size:
				cls = "="
				hit = size > 0
			default:
				cls = ">"
				hit = hit || size > 0
			}
			if o.Op == "popn" && o.K > 0 {
				if o.K >= size {
					size = 0
				} else {
					size -= o.K
				}
			}
		}
		b.WriteString(o.Op[:2] + cls + ",")
		hist("op:" + o.Op + cls)
	}
	if in.Nil {
		b.WriteString("nil")
	}
	return b.String(), hit && len(in.Ops) >= 3
}
