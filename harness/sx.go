package main

import (
	"fmt"
	"strings"
	"unicode/utf8"
)

// Sx mirrors Lib/Sx.v: the universal observable value compared with the model.
type Sx struct {
	K string  `json:"k"`           // "z", "s", "l"
	Z int64   `json:"z,omitempty"` // integer
	S []int64 `json:"s,omitempty"` // string as numbers (bytes or code points)
	L []Sx    `json:"l,omitempty"`
}

func Z(n int64) Sx { return Sx{K: "z", Z: n} }
func Zi(n int) Sx  { return Sx{K: "z", Z: int64(n)} }
func B(b bool) Sx {
	if b {
		return Z(1)
	}
	return Z(0)
}
func L(xs ...Sx) Sx {
	if xs == nil {
		xs = []Sx{}
	}
	return Sx{K: "l", L: xs}
}
func LS(xs []Sx) Sx {
	if xs == nil {
		xs = []Sx{}
	}
	return Sx{K: "l", L: xs}
}

// SBytes: a Go string as its bytes.
func SBytes(s string) Sx {
	v := make([]int64, len(s))
	for i := 0; i < len(s); i++ {
		v[i] = int64(s[i])
	}
	return Sx{K: "s", S: v}
}

// SRunes: a Go string as code points (invalid UTF-8 -> U+FFFD as Go's range does).
func SRunes(s string) Sx {
	v := make([]int64, 0, len(s))
	for _, r := range s {
		v = append(v, int64(r))
	}
	return Sx{K: "s", S: v}
}
func Opt(present bool, x Sx) Sx {
	if present {
		return L(x)
	}
	return L()
}

func coqZ(n int64) string {
	if n < 0 {
		return fmt.Sprintf("(%d)", n)
	}
	return fmt.Sprintf("%d", n)
}
func coqNums(v []int64) string {
	var b strings.Builder
	b.WriteString("[")
	for i, x := range v {
		if i > 0 {
			b.WriteString(";")
		}
		b.WriteString(coqZ(x))
	}
	b.WriteString("]")
	return b.String()
}

// coqBytes / coqRunes render a Go string as a model string term.
func coqBytes(s string) string { return "(s_ " + coqNums(SBytes(s).S) + ")" }
func coqRunes(s string) string { return "(s_ " + coqNums(SRunes(s).S) + ")" }
func coqBool(b bool) string {
	if b {
		return "true"
	}
	return "false"
}
func coqList(items []string) string { return "[" + strings.Join(items, "; ") + "]" }

func (x Sx) Coq() string {
	switch x.K {
	case "z":
		return "(SZ " + coqZ(x.Z) + ")"
	case "s":
		return "(SS (s_ " + coqNums(x.S) + "))"
	default:
		items := make([]string, len(x.L))
		for i, y := range x.L {
			items[i] = y.Coq()
		}
		return "(SL " + coqList(items) + ")"
	}
}

// Line renders the compact one-line form read by the extracted runner
// (extraction/driver.ml): ( ... ) lists, decimal integers, x<hex> byte strings,
// u<dec>.<dec> strings with elements above 255.
func (x Sx) Line(b *strings.Builder) {
	switch x.K {
	case "z":
		fmt.Fprintf(b, "%d", x.Z)
	case "s":
		small := true
		for _, v := range x.S {
			if v > 255 || v < 0 {
				small = false
				break
			}
		}
		if small {
			b.WriteByte('x')
			for _, v := range x.S {
				fmt.Fprintf(b, "%02x", v)
			}
		} else {
			b.WriteByte('u')
			for i, v := range x.S {
				if i > 0 {
					b.WriteByte('.')
				}
				fmt.Fprintf(b, "%d", v)
			}
		}
	default:
		b.WriteByte('(')
		for i, y := range x.L {
			if i > 0 {
				b.WriteByte(' ')
			}
			y.Line(b)
		}
		b.WriteByte(')')
	}
}

func (x Sx) String() string { var b strings.Builder; x.Line(&b); return b.String() }

// Size: rough size of the term, used to pick small cases for the in-Coq cross-check.
func (x Sx) Size() int {
	n := 1 + len(x.S)
	for _, y := range x.L {
		n += y.Size()
	}
	return n
}

func validUTF8(s string) bool { return utf8.ValidString(s) }
