#!/usr/bin/env python3
"""False-alarm test: run the checks on a harmless change produced by an independent sub-agent.

  ./benval.py C06 b1 [--src /tmp/seed/ben-C06/b1] [--checks all|C06,C05] [--keep]

In a scratch worktree of /repo under /tmp/seedval (removed afterwards): the patch applies, `go build ./...`
and `go build -tags verif ./...` succeed, the unedited suite passes; then `VERIF_REPO=<worktree> ./check <p>`
(experiment mode) for every requested property.  Any VIOLATION is a false alarm to investigate (or the change is
not harmless after all).  With --keep the change is stored as /verif/seeded/benign/<prop>-<name>/.
"""
import argparse, hashlib, json, os, shutil, subprocess, sys, time

ENV = dict(os.environ, GOFLAGS="-mod=mod", GOPROXY="off", GOSUMDB="off", GOTOOLCHAIN="local")
VROOT = os.path.dirname(os.path.abspath(__file__))
ALL = ["C%02d" % i for i in range(1, 21)]


def sh(cmd, cwd=None, timeout=1800, env=ENV):
    p = subprocess.run(cmd, cwd=cwd, shell=True, stdout=subprocess.PIPE, stderr=subprocess.STDOUT, text=True,
                       errors="replace", timeout=timeout, env=env)
    return p.returncode, p.stdout


def main():
    ap = argparse.ArgumentParser()
    ap.add_argument("prop")
    ap.add_argument("name")
    ap.add_argument("--src")
    ap.add_argument("--checks", default="all")
    ap.add_argument("--keep", action="store_true")
    ap.add_argument("--tier", default="quick")
    a = ap.parse_args()
    src = a.src or "/tmp/seed/ben-%s/%s" % (a.prop, a.name)
    patch = os.path.join(src, "patch.diff")
    wt = "/tmp/seedval/ben-%s-%s" % (a.prop, a.name)
    res = {"property": a.prop, "change": a.name, "source": src}
    sh("git -C /repo worktree remove --force %s" % wt)
    os.makedirs("/tmp/seedval", exist_ok=True)
    rc, out = sh("git -C /repo worktree add --detach %s HEAD" % wt)
    if rc != 0:
        print(out)
        return 2
    key = hashlib.sha1(wt.encode()).hexdigest()[:8]
    try:
        rc, out = sh("git apply %s" % patch, cwd=wt)
        res["applies"] = rc == 0
        if rc != 0:
            res["apply_output"] = out[-800:]
            print(json.dumps(res, indent=1))
            return 1
        rc, out = sh("go build ./... && go build -tags verif ./...", cwd=wt)
        res["builds"] = rc == 0
        if rc != 0:
            res["build_output"] = out[-800:]
        rc, out = sh("flock /tmp/xmpp-gotest.lock go test -vet=off -count=1 ./... 2>&1 | tail -5", cwd=wt)
        res["suite_passes_with_patch"] = "FAIL" not in out and "ok" in out
        res["suite_output"] = out[-300:]
        checks = ALL if a.checks == "all" else a.checks.split(",")
        # the property's own check first
        checks = [a.prop] + [c for c in checks if c != a.prop]
        res["checks"] = {}
        for c in checks:
            t0 = time.time()
            rc, out = sh("./check %s --tier %s" % (c, a.tier), cwd=VROOT, env=dict(os.environ, VERIF_REPO=wt), timeout=3600)
            lines = [l for l in out.split("\n") if l.startswith(("VIOLATION", "OK ", "KNOWN-FINDING")) or l.startswith("  ")]
            res["checks"][c] = {"exit": rc, "alarm": rc != 0, "lines": [l[:400] for l in lines[:8]], "wall_s": round(time.time() - t0, 1)}
        res["alarms"] = [c for c, v in res["checks"].items() if v["alarm"]]
    finally:
        sh("git -C /repo worktree remove --force %s" % wt)
        sh("rm -rf %s/work/xvrun.%s* %s/work/exp.%s" % (VROOT, key, VROOT, key))
    print(json.dumps(res, indent=1))
    if a.keep:
        dst = "/verif/seeded/benign/%s-%s" % (a.prop, a.name)
        os.makedirs(dst, exist_ok=True)
        shutil.copy(patch, os.path.join(dst, "patch.diff"))
        if os.path.exists(os.path.join(src, "README.md")):
            shutil.copy(os.path.join(src, "README.md"), os.path.join(dst, "README.md"))
        meta = {"property": a.prop, "kind": "harmless change (false-alarm test)",
                "validated": {k: res.get(k) for k in ("applies", "builds", "suite_passes_with_patch")},
                "ran": ["git apply patch.diff (scratch worktree of /repo HEAD)", "go build ./... && go build -tags verif ./...",
                        "go test -vet=off -count=1 ./... (unedited suite)"] + ["VERIF_REPO=<worktree> ./check %s --tier %s" % (c, a.tier) for c in res.get("checks", {})],
                "alarms": res.get("alarms"), "alarm_lines": {c: v["lines"][:3] for c, v in res.get("checks", {}).items() if v["alarm"]}}
        json.dump(meta, open(os.path.join(dst, "meta.json"), "w"), indent=1)
    return 0


if __name__ == "__main__":
    sys.exit(main())
