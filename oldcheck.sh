#!/bin/bash
# lean re-check: do the strengthened checks still catch the seeded changes of earlier rounds? (patch + own check only)
cd /verif; mkdir -p work/oldres /tmp/oldval
for p in "$@"; do for d in seeded/$p-*/; do n=$(basename $d); m=${n#*-}
  case $m in mut9|mut10) continue;; esac
  git -C /repo apply --check /verif/$d/patch.diff 2>/dev/null && echo "$p $m"
done; done | xargs -P 5 -L 1 sh -c 'wt=/tmp/oldval/$0-$1; git -C /repo worktree add --detach $wt HEAD >/dev/null 2>&1; git -C $wt apply /verif/seeded/$0-$1/patch.diff; VERIF_REPO=$wt ./check $0 > work/oldres/$0-$1.log 2>&1; rc=$?; git -C /repo worktree remove --force $wt; echo $0 $1 rc=$rc $(grep -m1 -A1 VIOLATION work/oldres/$0-$1.log | tail -1 | cut -c1-110)'
