#!/bin/bash
# false-alarm test of the strengthened checks: every stored harmless change of the given properties, own check only
cd /verif
mkdir -p work/benres5
for p in "$@"; do for d in seeded/benign/$p-b*/; do
  n=$(basename $d); b=${n#*-}
  if git -C /repo apply --check /verif/$d/patch.diff 2>/dev/null; then echo "$p $b"; fi
done; done | xargs -P 3 -L 1 sh -c './benval.py $0 $1 --src /verif/seeded/benign/$0-$1 --checks $0 > work/benres5/$0-$1.json 2>&1; echo $0 $1 $(grep -c VIOLATION work/benres5/$0-$1.json)'
